import TexelVerif.Chess.TexelGenLegal
/-!
`MoveGen::isLegal`, the two remaining fast paths:
* `same_ray_safe` — not in check, the moved piece is seen from the king along a ray and
  `getDirection(king, from) == getDirection(king, to)` (moveGen.cpp:651-652): the piece stays on its ray, so it still
  shields the king;
* `isLegal_castle` — castling through `!sqAttacked(pos, to, occupied & ~from)` (moveGen.cpp:640-642).
-/
namespace Chess.Texel
open PosImpl (BB getP getP_eq)

/-! ## `getDirection` -/

def dirXY (X Y : Int) : Int :=
  if X == 0 && Y == 0 then 0
  else if X == 0 || Y == 0 || X.natAbs == Y.natAbs then sgn Y * 8 + sgn X
  else if (X.natAbs == 1 && Y.natAbs == 2) || (X.natAbs == 2 && Y.natAbs == 1) then Y * 8 + X
  else 0

theorem direction_eq (a b : Sq) : direction a b = dirXY ((b.x : Int) - a.x) ((b.y : Int) - a.y) := rfl

def rng15 : List Int := (List.range 15).map fun (n : Nat) => (n : Int) - 7
def dirs3 : List Int := [-1, 0, 1]

/-- over all displacements on the board and all eight directions: `getDirection` returns the step `8·dy + dx`
    exactly for the displacements `j·(dx, dy)`, `1 ≤ j ≤ 7` -/
def dirTable : Bool :=
  rng15.all fun X => rng15.all fun Y => dirs3.all fun dx => dirs3.all fun dy =>
    !(dx != 0 || dy != 0) ||
    ((dirXY X Y == dy * 8 + dx) == ((List.range 8).any fun j => decide (1 ≤ j) && X == j * dx && Y == j * dy))

set_option maxRecDepth 100000 in
theorem dirTable_ok : dirTable = true := by decide +kernel

theorem dirXY_iff (X Y dx dy : Int) (hX : -7 ≤ X ∧ X ≤ 7) (hY : -7 ≤ Y ∧ Y ≤ 7) (hd : IsDir dx dy) :
    dirXY X Y = dy * 8 + dx ↔ ∃ j : Nat, 1 ≤ j ∧ X = j * dx ∧ Y = j * dy := by
  have h := dirTable_ok
  unfold dirTable at h
  rw [List.all_eq_true] at h
  have h := h X (by unfold rng15; exact List.mem_map.2 ⟨(X + 7).toNat, List.mem_range.2 (by omega), by omega⟩)
  rw [List.all_eq_true] at h
  have h := h Y (by unfold rng15; exact List.mem_map.2 ⟨(Y + 7).toNat, List.mem_range.2 (by omega), by omega⟩)
  obtain ⟨a1, a2, a3, a4, a5⟩ := hd
  rw [List.all_eq_true] at h
  have h := h dx (by unfold dirs3; rcases dir_cases a1 a2 with rfl | rfl | rfl <;> simp)
  rw [List.all_eq_true] at h
  have h := h dy (by unfold dirs3; rcases dir_cases a3 a4 with rfl | rfl | rfl <;> simp)
  have hnz : (dx != 0 || dy != 0) = true := by
    rcases a5 with a | a
    · simp [a]
    · simp [a]
  rw [hnz] at h
  simp only [Bool.not_true, Bool.false_or, beq_iff_eq] at h
  rw [← beq_iff_eq, h, List.any_eq_true]
  constructor
  · rintro ⟨j, _, hj⟩
    simp only [Bool.and_eq_true, decide_eq_true_eq, beq_iff_eq] at hj
    exact ⟨j, hj.1.1, hj.1.2, hj.2⟩
  · rintro ⟨j, h1, h2, h3⟩
    refine ⟨j, List.mem_range.2 ?_, by simp [h1, h2, h3]⟩
    rcases dir_cases a1 a2 with rfl | rfl | rfl <;> rcases dir_cases a3 a4 with rfl | rfl | rfl <;>
      simp only [Int.mul_neg, Int.mul_one, Int.mul_zero] at h2 h3 <;> omega

theorem Sq.dx_bounds (a b : Sq) : -7 ≤ (b.x : Int) - a.x ∧ (b.x : Int) - a.x ≤ 7 := by
  have := Sq.x_lt a; have := Sq.x_lt b; omega
theorem Sq.dy_bounds (a b : Sq) : -7 ≤ (b.y : Int) - a.y ∧ (b.y : Int) - a.y ≤ 7 := by
  have := Sq.y_lt a; have := Sq.y_lt b; omega

/-- `getDirection(k, t)` is the step of direction `(dx, dy)` iff `t` lies on that ray from `k` -/
theorem direction_iff (k t : Sq) (dx dy : Int) (hd : IsDir dx dy) :
    direction k t = dy * 8 + dx ↔ ∃ j : Nat, 1 ≤ j ∧ stepSq k.x k.y dx dy j = some t := by
  rw [direction_eq, dirXY_iff _ _ _ _ (Sq.dx_bounds k t) (Sq.dy_bounds k t) hd]
  constructor
  · rintro ⟨j, h1, h2, h3⟩; exact ⟨j, h1, (stepSq_eq_some _ _ _ _ _ _).2 ⟨by omega, by omega⟩⟩
  · rintro ⟨j, h1, h2⟩
    rw [stepSq_eq_some] at h2
    exact ⟨j, h1, by omega, by omega⟩

/-- two rays from one square that meet (after at least one step each) are the same ray -/
theorem dir_unique (x y dx dy ex ey : Int) (hd : IsDir dx dy) (he : IsDir ex ey) (i j : Nat) (hi : 1 ≤ i) (hj : 1 ≤ j) (q : Sq)
    (h1 : stepSq x y dx dy j = some q) (h2 : stepSq x y ex ey i = some q) : dx = ex ∧ dy = ey ∧ i = j := by
  rw [stepSq_eq_some] at h1 h2
  obtain ⟨a1, a2, a3, a4, a5⟩ := hd
  obtain ⟨b1, b2, b3, b4, b5⟩ := he
  rcases dir_cases a1 a2 with rfl | rfl | rfl <;> rcases dir_cases a3 a4 with rfl | rfl | rfl <;>
    rcases dir_cases b1 b2 with rfl | rfl | rfl <;> rcases dir_cases b3 b4 with rfl | rfl | rfl <;>
    simp only [Int.mul_neg, Int.mul_one, Int.mul_zero] at h1 h2 <;> omega

theorem stepSq_from (k f : Sq) (dx dy : Int) (j c : Nat) (hf : stepSq k.x k.y dx dy j = some f) :
    stepSq f.x f.y dx dy c = stepSq k.x k.y dx dy (j + c) := by
  rw [stepSq_eq_some] at hf
  unfold stepSq
  rw [hf.1, hf.2, Int.natCast_add, Int.add_mul, Int.add_mul]
  congr 1 <;> omega

/-! ## a pseudo-legal move does not jump over a piece -/

theorem isDir_rookDirs : ∀ dd ∈ rookDirs, IsDir dd.1 dd.2 := by
  intro dd h; simp only [rookDirs, List.mem_cons, List.mem_nil_iff, or_false] at h
  rcases h with rfl | rfl | rfl | rfl <;> (unfold IsDir; decide)
theorem isDir_bishDirs : ∀ dd ∈ bishDirs, IsDir dd.1 dd.2 := by
  intro dd h; simp only [bishDirs, List.mem_cons, List.mem_nil_iff, or_false] at h
  rcases h with rfl | rfl | rfl | rfl <;> (unfold IsDir; decide)
theorem isDir_dirs8 : ∀ dd ∈ dirs8, IsDir dd.1 dd.2 := by
  intro dd h; rw [dirs8, List.mem_append] at h
  exact h.elim (isDir_rookDirs dd) (isDir_bishDirs dd)

theorem slider_no_jump (b : Board) (f t s : Sq) (dirs : List (Int × Int)) (hdirs : ∀ dd ∈ dirs, IsDir dd.1 dd.2)
    (h : (dirs.any fun dd => rayReach b f t dd.1 dd.2) = true) (dx dy : Int) (hd : IsDir dx dy) (c i : Nat)
    (hi1 : 1 ≤ i) (hic : i < c) (hc : stepSq f.x f.y dx dy c = some t) (hs : stepSq f.x f.y dx dy i = some s) :
    b[s] = 0 := by
  rw [List.any_eq_true] at h
  obtain ⟨dd, hmem, hr⟩ := h
  rw [rayReach_iff _ _ _ _ _ (hdirs dd hmem)] at hr
  obtain ⟨c', hR⟩ := hr
  obtain ⟨e1, e2, e3⟩ := dir_unique _ _ _ _ _ _ hd (hdirs dd hmem) c' c hR.1 (by omega) t hc hR.2.1
  subst e3
  rw [← e1, ← e2] at hR
  obtain ⟨q, hq, he⟩ := hR.2.2 i hi1 hic
  rw [hs] at hq
  cases hq
  exact beq_iff_eq.1 he

/-- a pseudo-legal move of a piece other than the king along a line does not pass an occupied square -/
theorem no_jump (p : Pos) (m : Mv) (hp : pseudo p m = true) (hk : kind p.b[m.f] ≠ 1) (dx dy : Int) (hd : IsDir dx dy)
    (c i : Nat) (hi1 : 1 ≤ i) (hic : i < c) (hc : stepSq m.f.x m.f.y dx dy c = some m.t) (s : Sq)
    (hs : stepSq m.f.x m.f.y dx dy i = some s) : p.b[s] = 0 := by
  have hc' := (stepSq_eq_some _ _ _ _ _ _).1 hc
  have hs' := (stepSq_eq_some _ _ _ _ _ _).1 hs
  unfold pseudo at hp
  simp only [Bool.and_eq_true, Pos.at] at hp
  obtain ⟨_, hmv⟩ := hp
  obtain ⟨a1, a2, a3, a4, a5⟩ := hd
  split at hmv
  · -- pawn
    simp only [Bool.and_eq_true, Bool.or_eq_true, beq_iff_eq, dxy] at hmv
    obtain ⟨_, hmv⟩ := hmv
    rcases hmv with (⟨⟨h1, h2⟩, _⟩ | ⟨⟨⟨⟨h1, h2⟩, _⟩, _⟩, h5⟩) | ⟨⟨h1, h2⟩, _⟩
    · exfalso
      rcases dir_cases a1 a2 with rfl | rfl | rfl <;> rcases dir_cases a3 a4 with rfl | rfl | rfl <;>
        simp only [Int.mul_neg, Int.mul_one, Int.mul_zero] at hc' <;> cases hw : p.wtm <;> simp only [hw] at h2 <;>
        simp at h2 <;> omega
    · split at h5
      · rename_i q hq
        rw [mkSq?_eq_some] at hq
        have : q = s := by
          apply Sq.ext_xy
          · rcases dir_cases a1 a2 with rfl | rfl | rfl <;> rcases dir_cases a3 a4 with rfl | rfl | rfl <;>
              simp only [Int.mul_neg, Int.mul_one, Int.mul_zero] at hc' hs' <;> omega
          · rcases dir_cases a1 a2 with rfl | rfl | rfl <;> rcases dir_cases a3 a4 with rfl | rfl | rfl <;>
              simp only [Int.mul_neg, Int.mul_one, Int.mul_zero] at hc' hs' <;> cases hw : p.wtm <;> simp only [hw] at h2 hq <;>
              simp at h2 hq <;> omega
        subst this
        exact beq_iff_eq.1 h5
      · cases h5
    · exfalso
      rcases dir_cases a1 a2 with rfl | rfl | rfl <;> rcases dir_cases a3 a4 with rfl | rfl | rfl <;>
        simp only [Int.mul_neg, Int.mul_one, Int.mul_zero] at hc' <;> omega
  · rename_i h1; exact absurd h1 hk
  · -- knight and sliders
    simp only [Bool.and_eq_true] at hmv
    obtain ⟨_, hat⟩ := hmv
    unfold attacks at hat
    simp only at hat
    split at hat
    · rename_i h1; exact absurd h1 hk
    · exfalso
      simp only [Bool.or_eq_true, Bool.and_eq_true, beq_iff_eq, dxy] at hat
      rcases dir_cases a1 a2 with rfl | rfl | rfl <;> rcases dir_cases a3 a4 with rfl | rfl | rfl <;>
        simp only [Int.mul_neg, Int.mul_one, Int.mul_zero] at hc' <;> omega
    · rename_i h6 _ _ _ heq; exact absurd heq h6
    · exact slider_no_jump p.b m.f m.t s rookDirs isDir_rookDirs hat dx dy ⟨a1, a2, a3, a4, a5⟩ c i hi1 hic hc hs
    · exact slider_no_jump p.b m.f m.t s bishDirs isDir_bishDirs hat dx dy ⟨a1, a2, a3, a4, a5⟩ c i hi1 hic hc hs
    · exact slider_no_jump p.b m.f m.t s dirs8 isDir_dirs8 hat dx dy ⟨a1, a2, a3, a4, a5⟩ c i hi1 hic hc hs
    · cases hat

/-! ## the moved piece stays on its ray from the king -/

theorem visible_iff (occ : BB) (k s : Sq) : Visible occ k s ↔ ∃ dx dy, IsDir dx dy ∧ tst (ray occ k dx dy) s = true := by
  constructor
  · rintro (h | h)
    · obtain ⟨dx, dy, hd, h⟩ := (tst_rook_iff k s occ).1 h; exact ⟨dx, dy, hd.isDir, h⟩
    · obtain ⟨dx, dy, hd, h⟩ := (tst_bishop_iff k s occ).1 h; exact ⟨dx, dy, hd.isDir, h⟩
  · rintro ⟨dx, dy, hd, h⟩; exact visible_of_ray occ k s dx dy hd h

/-- not in check, the moved piece is seen from the king along a ray and moves along that ray (moveGen.cpp:651-652) -/
theorem same_ray_safe (p : Pos) (k : Sq) (hv : ValidB p.b) (hk : KingAt p.b p.wtm k) (m : Mv) (hp : pseudo p m = true)
    (hchk : Chess.inCheck p.b p.wtm = false) (hfk : m.f ≠ k) (hep : p.ep ≠ some m.t)
    (hdir : direction k m.f = direction k m.t) (hvis : Visible (occBB p.b) k m.f) : safeAfter p m = true := by
  unfold safeAfter
  obtain ⟨hs, hk'⟩ := simple_of_pseudo p m hp k hk hfk hep
  have hv' := validB_apply p hv m hp
  rw [inCheck_of_kingAt _ hv' _ k hk']
  rw [inCheck_of_kingAt _ hv _ k hk] at hchk
  have hnk : ¬ kind p.b[m.f] = 1 := fun h1 => hfk (hk.2 _ (king_of_kind _ _ (pseudo_own_f p m hp) h1))
  obtain ⟨dx, dy, hd, hfray⟩ := (visible_iff _ _ _).1 hvis
  obtain ⟨j, hRf⟩ := (tst_ray_iff _ _ _ _ _ hd).1 hfray
  have hdf : direction k m.f = dy * 8 + dx := (direction_iff k m.f dx dy hd).2 ⟨j, hRf.1, hRf.2.1⟩
  obtain ⟨j', hj'1, hj't⟩ := (direction_iff k m.t dx dy hd).1 (hdir ▸ hdf)
  suffices h : sqAttacked (apply p m).b p.wtm k (occBB (apply p m).b) = false by rw [h]; rfl
  apply Bool.eq_false_iff.2
  intro ha
  rw [sqAttacked_iff] at ha
  obtain ⟨s, hso, hatk⟩ := ha
  obtain ⟨hsf, hst, e⟩ := hs.enemy_after s hso
  have hocc_s : tst (occBB (apply p m).b) s = true := by
    rw [tst_occBB _ hv']; exact bne_iff_ne.2 (ne_zero_of_own _ _ hso)
  have : sqAttacked p.b p.wtm k (occBB p.b) = true := by
    rw [sqAttacked_iff]
    refine ⟨s, by rw [← e]; exact hso, ?_⟩
    rw [← e]
    apply atkFrom_transfer _ _ _ _ _ _ hatk
    intro ex ey he hr
    apply ray_transfer _ _ _ _ _ _ he hr
    intro q hqs hqv hqe
    have hqt : q ≠ m.t := by intro e; subst e; rw [hs.occ_t' hv'] at hqe; cases hqe
    by_cases hqf : q = m.f
    · exfalso
      subst hqf
      -- the ray towards `s` passes the from-square: it is the ray of the moved piece
      obtain ⟨i, hRi⟩ := (tst_ray_iff _ _ _ _ _ he).1 hqv
      obtain ⟨e1, e2, e3⟩ := dir_unique _ _ _ _ _ _ hd he i j hRi.1 hRf.1 _ hRf.2.1 hRi.2.1
      subst e1; subst e2; subst e3
      obtain ⟨n, hRs⟩ := (tst_ray_iff _ _ _ _ _ hd).1 hr
      -- order along the ray: from-square (i) < attacker (n) < to-square (j')
      have hin : i < n := by
        rcases Nat.lt_trichotomy i n with h | h | h
        · exact h
        · subst h; have h' := hRs.2.1; rw [hRi.2.1] at h'; exact absurd (Option.some.inj h') hsf.symm
        · obtain ⟨q', hq', hemp⟩ := hRi.2.2 n hRs.1 h
          rw [hRs.2.1] at hq'; cases hq'
          have hemp' : (!tst (occBB (apply p m).b) s) = true := hemp
          rw [hocc_s] at hemp'; cases hemp'
      have hnj : n < j' := by
        rcases Nat.lt_trichotomy n j' with h | h | h
        · exact h
        · subst h; have h' := hj't; rw [hRs.2.1] at h'; exact absurd (Option.some.inj h') hst
        · obtain ⟨q', hq', hemp⟩ := hRs.2.2 j' hj'1 h
          rw [hj't] at hq'; cases hq'
          have hemp' : (!tst (occBB (apply p m).b) m.t) = true := hemp
          rw [hs.occ_t' hv'] at hemp'; cases hemp'
      have h1 : stepSq m.f.x m.f.y dx dy (j' - i) = some m.t := by
        rw [stepSq_from k m.f dx dy i (j' - i) hRi.2.1, ← hj't]; congr 1; omega
      have h2 : stepSq m.f.x m.f.y dx dy (n - i) = some s := by
        rw [stepSq_from k m.f dx dy i (n - i) hRi.2.1, ← hRs.2.1]; congr 1; omega
      have := no_jump p m hp hnk dx dy hd (j' - i) (n - i) (by omega) (by omega) h1 s h2
      rw [e, this, own_zero] at hso; cases hso
    · rw [← hs.occ_other hv hv' q hqf hqt]; exact hqe
  rw [this] at hchk; cases hchk

/-! ## castling -/

/-- refined transfer: the ray claim is needed only for a slider that moves along that ray -/
theorem atkFrom_transfer' (pc : Pc) (occ1 occ2 : BB) (s k : Sq)
    (hray : ∀ dx dy, IsDir dx dy →
      ((RookD dx dy ∧ (kind pc = 3 ∨ kind pc = 2)) ∨ (BishD dx dy ∧ (kind pc = 4 ∨ kind pc = 2))) →
      tst (ray occ1 k dx dy) s = true → tst (ray occ2 k dx dy) s = true)
    (h : atkFrom pc occ1 s k = true) : atkFrom pc occ2 s k = true := by
  have hr : (kind pc = 3 ∨ kind pc = 2) → tst (rookAttacks k occ1) s = true → tst (rookAttacks k occ2) s = true := by
    intro hk
    rw [tst_rook_iff, tst_rook_iff]
    rintro ⟨dx, dy, hd, h⟩; exact ⟨dx, dy, hd, hray dx dy hd.isDir (Or.inl ⟨hd, hk⟩) h⟩
  have hb : (kind pc = 4 ∨ kind pc = 2) → tst (bishopAttacks k occ1) s = true → tst (bishopAttacks k occ2) s = true := by
    intro hk
    rw [tst_bishop_iff, tst_bishop_iff]
    rintro ⟨dx, dy, hd, h⟩; exact ⟨dx, dy, hd, hray dx dy hd.isDir (Or.inr ⟨hd, hk⟩) h⟩
  unfold atkFrom at h ⊢
  split <;> rename_i hk <;> simp only [hk] at h
  · exact h
  · exact h
  · exact h
  · exact hr (Or.inl hk) h
  · exact hb (Or.inl hk) h
  · rw [Bool.or_eq_true] at h ⊢
    exact h.imp (hr (Or.inr hk)) (hb (Or.inr hk))
  · exact h

/-- the squares of the back rank from the king's home file to the corner the rook comes from
    (`dI` = direction from the king's destination back to its home square: -1 for O-O, +1 for O-O-O) -/
def Zone (f : Sq) (dI : Int) (q : Sq) : Prop := q.y = f.y ∧ (dI = -1 → 4 ≤ q.x) ∧ (dI = 1 → q.x ≤ 4)

/-- a ray from the king's destination towards a square outside the zone is the same over two occupancies that
    agree outside the zone, provided that on the way back to the home square either the next square is occupied
    (the rook after castling) or the king has been lifted off and no rook ray from the home square reaches `s` -/
theorem castle_ray (occA occB occ : BB) (f t s : Sq) (dI : Int) (hdI : dI = 1 ∨ dI = -1)
    (hfy : t.y = f.y) (hfx : f.x = 4) (htx : (t.x : Int) = 4 - 2 * dI)
    (hs : ¬ Zone f dI s)
    (hO : ∀ q, ¬ Zone f dI q → tst occA q = tst occB q) (dx dy : Int)
    (hin : (∀ q : Sq, q.y = f.y → (q.x : Int) = 4 - dI → tst occA q = true) ∨
           ((∀ q, q ≠ f → tst occA q = tst occ q) ∧ (dy = 0 → tst (ray occ f dI 0) s = false)))
    (hd : IsDir dx dy) (h : tst (ray occA t dx dy) s = true) : tst (ray occB t dx dy) s = true := by
  rw [tst_ray_iff _ _ _ _ _ hd] at h ⊢
  obtain ⟨n, hR⟩ := h
  by_cases hz : ∃ j q, 1 ≤ j ∧ j < n ∧ stepSq t.x t.y dx dy j = some q ∧ Zone f dI q
  · exfalso
    obtain ⟨j, q, hj1, hjn, hq, hzq⟩ := hz
    have hq' := (stepSq_eq_some _ _ _ _ _ _).1 hq
    have hs' := (stepSq_eq_some _ _ _ _ _ _).1 hR.2.1
    have hsx := Sq.x_lt s; have hqx := Sq.x_lt q
    obtain ⟨a1, a2, a3, a4, a5⟩ := hd
    have hdy : dy = 0 := by
      have := hzq.1
      rcases dir_cases a3 a4 with rfl | rfl | rfl <;> simp only [Int.mul_neg, Int.mul_one, Int.mul_zero] at hq' <;> omega
    subst hdy
    have hin : (∀ q : Sq, q.y = f.y → (q.x : Int) = 4 - dI → tst occA q = true) ∨
           ((∀ q, q ≠ f → tst occA q = tst occ q) ∧ tst (ray occ f dI 0) s = false) :=
      hin.imp id (fun h => ⟨h.1, h.2 rfl⟩)
    simp only [Int.mul_zero, Int.add_zero] at hq' hs'
    have hdx : dx = dI ∨ dx = -dI := by omega
    rcases hdx with rfl | rfl
    · -- towards the home square
      rcases hin with hin | ⟨hin1, hin2⟩
      · obtain ⟨q1, hq1, hemp⟩ := hR.2.2 1 (Nat.le_refl _) (by omega)
        have hq1' := (stepSq_eq_some _ _ _ _ _ _).1 hq1
        have : tst occA q1 = true := hin q1 (by simp at hq1'; omega) (by simp at hq1'; omega)
        have hemp' : (!tst occA q1) = true := hemp
        rw [this] at hemp'; cases hemp'
      · have hn3 : 3 ≤ n := by
          unfold Zone at hs
          rcases hdI with rfl | rfl <;> simp at hs' <;> omega
        have hf2 : stepSq t.x t.y dx 0 2 = some f := by
          rw [stepSq_eq_some]
          rcases hdI with rfl | rfl <;> simp <;> omega
        have : tst (ray occ f dx 0) s = true := by
          rw [tst_ray_iff _ _ _ _ _ ⟨a1, a2, a3, a4, a5⟩]
          refine ⟨n - 2, by omega, ?_, ?_⟩
          · rw [stepSq_from t f dx 0 2 (n - 2) hf2, ← hR.2.1]; congr 1; omega
          · intro c hc1 hc2
            obtain ⟨q', hq', hemp⟩ := hR.2.2 (2 + c) (by omega) (by omega)
            refine ⟨q', by rw [stepSq_from t f dx 0 2 c hf2]; exact hq', ?_⟩
            have hne : q' ≠ f := by
              intro e; subst e
              have := step_inj _ _ _ _ ⟨a1, a2, a3, a4, a5⟩ _ _ _ hq' hf2
              omega
            have hemp' : (!tst occA q') = true := hemp
            rw [hin1 q' hne] at hemp'; exact hemp'
        rw [this] at hin2; cases hin2
    · -- away from the home square: everything up to the edge of the board is in the zone
      apply hs
      unfold Zone
      rcases hdI with rfl | rfl <;> simp at hs' <;> omega
  · refine ⟨n, reachN_congr _ _ _ _ _ _ _ _ hR ?_⟩
    intro j q hj1 hjn hq he
    have hnz : ¬ Zone f dI q := fun hzq => hz ⟨j, q, hj1, hjn, hq, hzq⟩
    rw [← hO q hnz]; exact he

/-- `sqAttacked` on the king's destination with the king lifted off, over the board before castling, is `sqAttacked`
    over the board after castling -/
theorem castle_sqAttacked (b b' : Board) (w : Bool) (f t : Sq) (occ1 occ2 : BB) (dI : Int) (hdI : dI = 1 ∨ dI = -1)
    (hfy : t.y = f.y) (hfx : f.x = 4) (htx : (t.x : Int) = 4 - 2 * dI)
    (B1 : ∀ q, ¬ Zone f dI q → b'[q] = b[q])
    (B2 : ∀ q, Zone f dI q → own (!w) b[q] = false ∧ own (!w) b'[q] = false)
    (O : ∀ q, ¬ Zone f dI q → tst occ1 q = tst occ2 q)
    (O1 : ∀ q, q ≠ f → tst occ1 q = tst (occBB b) q)
    (O2 : ∀ q : Sq, q.y = f.y → (q.x : Int) = 4 - dI → tst occ2 q = true)
    (C : sqAttacked b w f (occBB b) = false) :
    sqAttacked b w t occ1 = sqAttacked b' w t occ2 := by
  have hdir : IsDir dI 0 := by unfold IsDir; omega
  have hrd : RookD dI 0 := by unfold RookD; omega
  rw [Bool.eq_iff_iff, sqAttacked_iff, sqAttacked_iff]
  constructor
  · rintro ⟨s, hso, hatk⟩
    have hnz : ¬ Zone f dI s := fun hz => by rw [(B2 s hz).1] at hso; cases hso
    have e := B1 s hnz
    refine ⟨s, by rw [e]; exact hso, ?_⟩
    rw [e]
    apply atkFrom_transfer' _ _ _ _ _ _ hatk
    intro dx dy hd hkind
    apply castle_ray occ1 occ2 (occBB b) f t s dI hdI hfy hfx htx hnz O dx dy _ hd
    refine Or.inr ⟨O1, ?_⟩
    intro hdy
    apply Bool.eq_false_iff.2
    intro hr
    have hk32 : kind b[s] = 3 ∨ kind b[s] = 2 := by
      rcases hkind with ⟨_, h⟩ | ⟨hb, _⟩
      · exact h
      · unfold BishD at hb; omega
    have hra : tst (rookAttacks f (occBB b)) s = true := (tst_rook_iff f s _).2 ⟨dI, 0, hrd, hr⟩
    have : sqAttacked b w f (occBB b) = true := by
      rw [sqAttacked_iff]
      refine ⟨s, hso, ?_⟩
      unfold atkFrom
      rcases hk32 with h | h <;> rw [h] <;> simp [hra]
    rw [this] at C; cases C
  · rintro ⟨s, hso, hatk⟩
    have hnz : ¬ Zone f dI s := fun hz => by rw [(B2 s hz).2] at hso; cases hso
    have e := B1 s hnz
    refine ⟨s, by rw [← e]; exact hso, ?_⟩
    rw [← e]
    apply atkFrom_transfer' _ _ _ _ _ _ hatk
    intro dx dy hd _
    exact castle_ray occ2 occ1 (occBB b) f t s dI hdI hfy hfx htx hnz (fun q hq => (O q hq).symm) dx dy (Or.inl O2) hd

theorem castleOk_notInCheck (p : Pos) (short : Bool) (h : castleOk p short = true) : Chess.inCheck p.b p.wtm = false := by
  unfold castleOk at h
  simp only [Bool.and_eq_true, Bool.not_eq_true'] at h
  exact h.1.2

theorem rook_ne_king (w : Bool) : (if w then WROOK else BROOK) ≠ (if w then WKING else BKING) := by cases w <;> decide
theorem zero_ne_king (w : Bool) : (0 : Pc) ≠ (if w then WKING else BKING) := by cases w <;> decide
theorem own_rook (w : Bool) : own w (if w then WROOK else BROOK) = true := by cases w <;> decide
theorem rook_ne_zero (w : Bool) : (if w then WROOK else BROOK) ≠ (0 : Pc) := by cases w <;> decide

theorem getP_val (b : Board) (q : Sq) (n : Nat) (h : q.val = n) : getP b n = b[q] := by subst h; exact getP_sq b q

/-- the board after castling short -/
theorem apply_b_short (p : Pos) (m : Mv) (hkind : kind p.b[m.f] = 1) (hpr : m.promo = 0) (ht : m.t.val = m.f.val + 2) (q : Sq) :
    (apply p m).b[q] = if m.f.val + 1 = q.val then (if p.wtm then WROOK else BROOK) else if m.f.val + 3 = q.val then 0
      else if m.t.val = q.val then p.b[m.f] else if m.f.val = q.val then 0 else p.b[q] := by
  rw [PosImpl.apply_eq]
  show (PosImpl.b4S p m)[q] = _
  have hep : PosImpl.isEpS p m = false := by unfold PosImpl.isEpS; rw [getP_sq, hkind]; rfl
  unfold PosImpl.b4S
  rw [getP_sq, hkind]
  have : ((1 : UInt8) == 1 && m.t.val == m.f.val + 2) = true := by simp [ht]
  rw [if_pos this, setSq_get, setSq_get]
  unfold PosImpl.b3S
  rw [hep, setSq_get, setSq_get, getP_sq, hpr]
  simp

/-- the board after castling long -/
theorem apply_b_long (p : Pos) (m : Mv) (hkind : kind p.b[m.f] = 1) (hpr : m.promo = 0) (ht : m.t.val + 2 = m.f.val) (q : Sq) :
    (apply p m).b[q] = if m.f.val - 1 = q.val then (if p.wtm then WROOK else BROOK) else if m.f.val - 4 = q.val then 0
      else if m.t.val = q.val then p.b[m.f] else if m.f.val = q.val then 0 else p.b[q] := by
  rw [PosImpl.apply_eq]
  show (PosImpl.b4S p m)[q] = _
  have hep : PosImpl.isEpS p m = false := by unfold PosImpl.isEpS; rw [getP_sq, hkind]; rfl
  unfold PosImpl.b4S
  rw [getP_sq, hkind]
  have h1 : ((1 : UInt8) == 1 && m.t.val == m.f.val + 2) = false := by
    simp only [beq_self_eq_true, Bool.true_and, beq_eq_false_iff_ne, ne_eq]; omega
  have h2 : ((1 : UInt8) == 1 && m.t.val + 2 == m.f.val) = true := by simp [ht]
  rw [if_neg (by rw [h1]; exact Bool.false_ne_true), if_pos h2, setSq_get, setSq_get]
  unfold PosImpl.b3S
  rw [hep, setSq_get, setSq_get, getP_sq, hpr]
  simp

theorem own_not_king (w : Bool) : own (!w) (if w then WKING else BKING) = false := own_excl w _ (own_king w)
theorem own_not_rook (w : Bool) : own (!w) (if w then WROOK else BROOK) = false := own_excl w _ (own_rook w)

/-- not in check, castling short (moveGen.cpp:640-642) -/
theorem isLegal_castle_short (p : Pos) (k : Sq) (hv : ValidB p.b) (hk : KingAt p.b p.wtm k) (m : Mv) (hp : pseudo p m = true)
    (hfk : m.f = k) (ht : m.t.val = m.f.val + 2) :
    (!sqAttacked p.b p.wtm m.t (occBB p.b &&& ~~~sqBit m.f)) = safeAfter p m := by
  subst hfk
  have hkind : kind p.b[m.f] = 1 := by rw [hk.1]; exact kind_king _
  obtain ⟨hpr, hcase⟩ := PosImpl.pseudo_king p m hp (by rw [getP_sq]; exact hkind)
  have hhc : m.f.val = (if p.wtm then 4 else 60) ∧ castleOk p true = true := by
    rcases hcase with h | h | h
    · omega
    · exact ⟨h.2.1, h.2.2⟩
    · omega
  obtain ⟨hhome, hco⟩ := hhc
  obtain ⟨e1, e2, e3⟩ := PosImpl.castleOk_short p hco
  rw [← hhome] at e1 e2 e3
  have hnic : Chess.inCheck p.b p.wtm = false := castleOk_notInCheck p true hco
  have hb := apply_b_short p m hkind hpr ht
  have hf4 : m.f.val = 4 ∨ m.f.val = 60 := by cases hw : p.wtm <;> simp [hw] at hhome <;> omega
  have hv' := validB_apply p hv m hp
  have hzone : ∀ q : Sq, Zone m.f (-1) q ↔ (q.val = m.f.val ∨ q.val = m.f.val + 1 ∨ q.val = m.f.val + 2 ∨ q.val = m.f.val + 3) := by
    intro q; unfold Zone Sq.x Sq.y
    have := q.isLt
    constructor
    · rintro ⟨h1, h2, _⟩; have := h2 rfl; omega
    · intro h; refine ⟨by omega, fun _ => by omega, fun h => by omega⟩
  have hk' : KingAt (apply p m).b p.wtm m.t := by
    constructor
    · rw [hb m.t, if_neg (by omega), if_neg (by omega), if_pos rfl]; exact hk.1
    · intro s hs
      rw [hb s] at hs
      split at hs
      · exact absurd hs (rook_ne_king _)
      · split at hs
        · exact absurd hs (zero_ne_king _)
        · split at hs
          · rename_i h; exact Fin.ext h.symm
          · split at hs
            · exact absurd hs (zero_ne_king _)
            · rename_i h; exact absurd (hk.2 s hs) (fun e => h (by rw [e]))
  unfold safeAfter
  rw [inCheck_of_kingAt _ hv' _ m.t hk']
  apply congrArg not
  have hfx : m.f.x = 4 := by unfold Sq.x; omega
  have hty : m.t.y = m.f.y := by unfold Sq.y; omega
  have htx : (m.t.x : Int) = 4 - 2 * (-1) := by unfold Sq.x; omega
  refine castle_sqAttacked p.b (apply p m).b p.wtm m.f m.t (occBB p.b &&& ~~~sqBit m.f) (occBB (apply p m).b) (-1) (Or.inr rfl)
    hty hfx htx ?_ ?_ ?_ ?_ ?_ ?_
  · intro q hq
    rw [hzone] at hq
    rw [hb q, if_neg (by omega), if_neg (by omega), if_neg (by omega), if_neg (by omega)]
  · intro q hq
    rw [hzone] at hq
    rw [hb q]
    rcases hq with h | h | h | h
    · have : q = m.f := Fin.ext h
      subst this
      rw [if_neg (by omega), if_neg (by omega), if_neg (by omega), if_pos rfl, hk.1]
      exact ⟨own_not_king _, own_zero _⟩
    · rw [if_pos h.symm, ← getP_val p.b q _ h, e1]; exact ⟨own_zero _, own_not_rook _⟩
    · rw [if_neg (by omega), if_neg (by omega), if_pos (by omega), ← getP_val p.b q _ h, e2, hk.1]
      exact ⟨own_zero _, own_not_king _⟩
    · rw [if_neg (by omega), if_pos h.symm, ← getP_val p.b q _ h, e3]; exact ⟨own_not_rook _, own_zero _⟩
  · intro q hq
    have hqf : q ≠ m.f := by intro e; subst e; exact hq ((hzone _).2 (Or.inl rfl))
    rw [hzone] at hq
    rw [tst_and, tst_not, tst_sqBit, tst_occBB _ hv, tst_occBB _ hv', hb q, if_neg (by omega), if_neg (by omega),
      if_neg (by omega), if_neg (by omega)]
    simp [hqf]
  · intro q hqf
    rw [tst_and, tst_not, tst_sqBit]; simp [hqf]
  · intro q hy hx
    have hqv : m.f.val + 1 = q.val := by
      have := q.isLt; unfold Sq.y at hy; unfold Sq.x at hx hfx; omega
    rw [tst_occBB _ hv', hb q, if_pos hqv]
    exact bne_iff_ne.2 (rook_ne_zero _)
  · rw [← inCheck_of_kingAt _ hv _ m.f hk]; exact hnic

/-- not in check, castling long (moveGen.cpp:640-642) -/
theorem isLegal_castle_long (p : Pos) (k : Sq) (hv : ValidB p.b) (hk : KingAt p.b p.wtm k) (m : Mv) (hp : pseudo p m = true)
    (hfk : m.f = k) (ht : m.t.val + 2 = m.f.val) :
    (!sqAttacked p.b p.wtm m.t (occBB p.b &&& ~~~sqBit m.f)) = safeAfter p m := by
  subst hfk
  have hkind : kind p.b[m.f] = 1 := by rw [hk.1]; exact kind_king _
  obtain ⟨hpr, hcase⟩ := PosImpl.pseudo_king p m hp (by rw [getP_sq]; exact hkind)
  have hhc : m.f.val = (if p.wtm then 4 else 60) ∧ castleOk p false = true := by
    rcases hcase with h | h | h
    · omega
    · omega
    · exact ⟨h.2.1, h.2.2⟩
  obtain ⟨hhome, hco⟩ := hhc
  obtain ⟨e1, e2, e3, e4⟩ := PosImpl.castleOk_long p hco
  rw [← hhome] at e1 e2 e3 e4
  have hnic : Chess.inCheck p.b p.wtm = false := castleOk_notInCheck p false hco
  have hb := apply_b_long p m hkind hpr ht
  have hf4 : m.f.val = 4 ∨ m.f.val = 60 := by cases hw : p.wtm <;> simp [hw] at hhome <;> omega
  have hv' := validB_apply p hv m hp
  have hzone : ∀ q : Sq, Zone m.f 1 q ↔ (q.val = m.f.val ∨ q.val + 1 = m.f.val ∨ q.val + 2 = m.f.val ∨ q.val + 3 = m.f.val ∨ q.val + 4 = m.f.val) := by
    intro q; unfold Zone Sq.x Sq.y
    have := q.isLt
    constructor
    · rintro ⟨h1, _, h2⟩; have := h2 rfl; omega
    · intro h; refine ⟨by omega, fun h => by omega, fun _ => by omega⟩
  have hk' : KingAt (apply p m).b p.wtm m.t := by
    constructor
    · rw [hb m.t, if_neg (by omega), if_neg (by omega), if_pos rfl]; exact hk.1
    · intro s hs
      rw [hb s] at hs
      split at hs
      · exact absurd hs (rook_ne_king _)
      · split at hs
        · exact absurd hs (zero_ne_king _)
        · split at hs
          · rename_i h; exact Fin.ext h.symm
          · split at hs
            · exact absurd hs (zero_ne_king _)
            · rename_i h; exact absurd (hk.2 s hs) (fun e => h (by rw [e]))
  unfold safeAfter
  rw [inCheck_of_kingAt _ hv' _ m.t hk']
  apply congrArg not
  have hfx : m.f.x = 4 := by unfold Sq.x; omega
  have hty : m.t.y = m.f.y := by unfold Sq.y; omega
  have htx : (m.t.x : Int) = 4 - 2 * 1 := by unfold Sq.x; omega
  refine castle_sqAttacked p.b (apply p m).b p.wtm m.f m.t (occBB p.b &&& ~~~sqBit m.f) (occBB (apply p m).b) 1 (Or.inl rfl)
    hty hfx htx ?_ ?_ ?_ ?_ ?_ ?_
  · intro q hq
    rw [hzone] at hq
    rw [hb q, if_neg (by omega), if_neg (by omega), if_neg (by omega), if_neg (by omega)]
  · intro q hq
    rw [hzone] at hq
    rw [hb q]
    rcases hq with h | h | h | h | h
    · have : q = m.f := Fin.ext h
      subst this
      rw [if_neg (by omega), if_neg (by omega), if_neg (by omega), if_pos rfl, hk.1]
      exact ⟨own_not_king _, own_zero _⟩
    · have h' : q.val = m.f.val - 1 := by omega
      rw [if_pos h'.symm, ← getP_val p.b q _ h', e1]; exact ⟨own_zero _, own_not_rook _⟩
    · have h' : q.val = m.f.val - 2 := by omega
      rw [if_neg (by omega), if_neg (by omega), if_pos (by omega), ← getP_val p.b q _ h', e2, hk.1]
      exact ⟨own_zero _, own_not_king _⟩
    · have h' : q.val = m.f.val - 3 := by omega
      rw [if_neg (by omega), if_neg (by omega), if_neg (by omega), if_neg (by omega), ← getP_val p.b q _ h', e3]
      exact ⟨own_zero _, own_zero _⟩
    · have h' : q.val = m.f.val - 4 := by omega
      rw [if_neg (by omega), if_pos h'.symm, ← getP_val p.b q _ h', e4]; exact ⟨own_not_rook _, own_zero _⟩
  · intro q hq
    have hqf : q ≠ m.f := by intro e; subst e; exact hq ((hzone _).2 (Or.inl rfl))
    rw [hzone] at hq
    rw [tst_and, tst_not, tst_sqBit, tst_occBB _ hv, tst_occBB _ hv', hb q, if_neg (by omega), if_neg (by omega),
      if_neg (by omega), if_neg (by omega)]
    simp [hqf]
  · intro q hqf
    rw [tst_and, tst_not, tst_sqBit]; simp [hqf]
  · intro q hy hx
    have hqv : m.f.val - 1 = q.val := by
      have := q.isLt; unfold Sq.y at hy; unfold Sq.x at hx hfx; omega
    rw [tst_occBB _ hv', hb q, if_pos hqv]
    exact bne_iff_ne.2 (rook_ne_zero _)
  · rw [← inCheck_of_kingAt _ hv _ m.f hk]; exact hnic

/-! ## `isLegal` -/

/-- **`MoveGen::isLegal` on a pseudo-legal move, called with the correct in-check flag, says whether the mover's
    king is attacked after the move** — all five paths of moveGen.cpp:621-659. -/
theorem isLegal_eq (p : Pos) (k : Sq) (hv : ValidB p.b) (hk : KingAt p.b p.wtm k) (m : Mv) (hp : pseudo p m = true) :
    isLegal p k m (Chess.inCheck p.b p.wtm) = safeAfter p m := by
  cases hchk : Chess.inCheck p.b p.wtm
  · unfold isLegal
    simp only [Bool.false_eq_true, if_false]
    split
    · rename_i hf
      have hfk : m.f = k := by simpa using hf
      by_cases hc : m.t.val = m.f.val + 2
      · exact isLegal_castle_short p k hv hk m hp hfk hc
      · by_cases hc2 : m.t.val + 2 = m.f.val
        · exact isLegal_castle_long p k hv hk m hp hfk hc2
        · exact isLegal_kingStep p k hv hk m hp hfk ⟨hc, hc2⟩
    · rename_i hf
      have hfk : m.f ≠ k := by simpa using hf
      split
      · rename_i hc
        simp only [Bool.and_eq_true, bne_iff_ne, ne_eq, Bool.or_eq_true, and_sqBit_eq_zero, Bool.not_eq_true', beq_iff_eq] at hc
        obtain ⟨hep, hc⟩ := hc
        symm
        by_cases hvis : Visible (occBB p.b) k m.f
        · rcases hc with ⟨h1, h2⟩ | hdir
          · rcases hvis with h | h
            · rw [h] at h1; cases h1
            · rw [h] at h2; cases h2
          · exact same_ray_safe p k hv hk m hp hchk hfk hep hdir hvis
        · exact isLegal_notVisible p k hv hk m hp hchk hfk hep hvis
      · unfold safeAfter; rw [inCheckAfter_eq p hv m hp]
  · exact isLegal_inCheck p k hv hk m hp hchk

/-- the moves `isLegal` accepts among the pseudo-legal ones are exactly the specification's legal moves -/
theorem isLegal_legalB (p : Pos) (k : Sq) (hv : ValidB p.b) (hk : KingAt p.b p.wtm k) (m : Mv) :
    (pseudo p m && isLegal p k m (Chess.inCheck p.b p.wtm)) = legalB p m := by
  unfold legalB
  cases hp : pseudo p m
  · rfl
  · rw [isLegal_eq p k hv hk m hp]; rfl

end Chess.Texel
