import TexelVerif.Chess.TexelGenLegal
/-!
`MoveGen::isLegal`, the two remaining fast paths:
* `same_ray_safe` — not in check, the moved piece is seen from the king along a ray and
  `getDirection(king, from) == getDirection(king, to)` (moveGen.cpp:651-652): the piece stays on its ray, so it still
  shields the king;
* `isLegal_castle` — castling through `!sqAttacked(pos, to, occupied & ~from)` (moveGen.cpp:640-642).
-/
namespace Chess.Texel
open PosImpl (BB getP getP_eq)

/-! ## `getDirection` -/

def dirXY (X Y : Int) : Int :=
  if X == 0 && Y == 0 then 0
  else if X == 0 || Y == 0 || X.natAbs == Y.natAbs then sgn Y * 8 + sgn X
  else if (X.natAbs == 1 && Y.natAbs == 2) || (X.natAbs == 2 && Y.natAbs == 1) then Y * 8 + X
  else 0

theorem direction_eq (a b : Sq) : direction a b = dirXY ((b.x : Int) - a.x) ((b.y : Int) - a.y) := rfl

def rng15 : List Int := (List.range 15).map fun (n : Nat) => (n : Int) - 7
def dirs3 : List Int := [-1, 0, 1]

/-- over all displacements on the board and all eight directions: `getDirection` returns the step `8·dy + dx`
    exactly for the displacements `j·(dx, dy)`, `1 ≤ j ≤ 7` -/
def dirTable : Bool :=
  rng15.all fun X => rng15.all fun Y => dirs3.all fun dx => dirs3.all fun dy =>
    !(dx != 0 || dy != 0) ||
    ((dirXY X Y == dy * 8 + dx) == ((List.range 8).any fun j => decide (1 ≤ j) && X == j * dx && Y == j * dy))

set_option maxRecDepth 100000 in
theorem dirTable_ok : dirTable = true := by decide +kernel

theorem dirXY_iff (X Y dx dy : Int) (hX : -7 ≤ X ∧ X ≤ 7) (hY : -7 ≤ Y ∧ Y ≤ 7) (hd : IsDir dx dy) :
    dirXY X Y = dy * 8 + dx ↔ ∃ j : Nat, 1 ≤ j ∧ X = j * dx ∧ Y = j * dy := by
  have h := dirTable_ok
  unfold dirTable at h
  rw [List.all_eq_true] at h
  have h := h X (by unfold rng15; exact List.mem_map.2 ⟨(X + 7).toNat, List.mem_range.2 (by omega), by omega⟩)
  rw [List.all_eq_true] at h
  have h := h Y (by unfold rng15; exact List.mem_map.2 ⟨(Y + 7).toNat, List.mem_range.2 (by omega), by omega⟩)
  obtain ⟨a1, a2, a3, a4, a5⟩ := hd
  rw [List.all_eq_true] at h
  have h := h dx (by unfold dirs3; rcases dir_cases a1 a2 with rfl | rfl | rfl <;> simp)
  rw [List.all_eq_true] at h
  have h := h dy (by unfold dirs3; rcases dir_cases a3 a4 with rfl | rfl | rfl <;> simp)
  have hnz : (dx != 0 || dy != 0) = true := by
    rcases a5 with a | a
    · simp [a]
    · simp [a]
  rw [hnz] at h
  simp only [Bool.not_true, Bool.false_or, beq_iff_eq] at h
  rw [← beq_iff_eq, h, List.any_eq_true]
  constructor
  · rintro ⟨j, _, hj⟩
    simp only [Bool.and_eq_true, decide_eq_true_eq, beq_iff_eq] at hj
    exact ⟨j, hj.1.1, hj.1.2, hj.2⟩
  · rintro ⟨j, h1, h2, h3⟩
    refine ⟨j, List.mem_range.2 ?_, by simp [h1, h2, h3]⟩
    rcases dir_cases a1 a2 with rfl | rfl | rfl <;> rcases dir_cases a3 a4 with rfl | rfl | rfl <;>
      simp only [Int.mul_neg, Int.mul_one, Int.mul_zero] at h2 h3 <;> omega

theorem Sq.dx_bounds (a b : Sq) : -7 ≤ (b.x : Int) - a.x ∧ (b.x : Int) - a.x ≤ 7 := by
  have := Sq.x_lt a; have := Sq.x_lt b; omega
theorem Sq.dy_bounds (a b : Sq) : -7 ≤ (b.y : Int) - a.y ∧ (b.y : Int) - a.y ≤ 7 := by
  have := Sq.y_lt a; have := Sq.y_lt b; omega

/-- `getDirection(k, t)` is the step of direction `(dx, dy)` iff `t` lies on that ray from `k` -/
theorem direction_iff (k t : Sq) (dx dy : Int) (hd : IsDir dx dy) :
    direction k t = dy * 8 + dx ↔ ∃ j : Nat, 1 ≤ j ∧ stepSq k.x k.y dx dy j = some t := by
  rw [direction_eq, dirXY_iff _ _ _ _ (Sq.dx_bounds k t) (Sq.dy_bounds k t) hd]
  constructor
  · rintro ⟨j, h1, h2, h3⟩; exact ⟨j, h1, (stepSq_eq_some _ _ _ _ _ _).2 ⟨by omega, by omega⟩⟩
  · rintro ⟨j, h1, h2⟩
    rw [stepSq_eq_some] at h2
    exact ⟨j, h1, by omega, by omega⟩

/-- two rays from one square that meet (after at least one step each) are the same ray -/
theorem dir_unique (x y dx dy ex ey : Int) (hd : IsDir dx dy) (he : IsDir ex ey) (i j : Nat) (hi : 1 ≤ i) (hj : 1 ≤ j) (q : Sq)
    (h1 : stepSq x y dx dy j = some q) (h2 : stepSq x y ex ey i = some q) : dx = ex ∧ dy = ey ∧ i = j := by
  rw [stepSq_eq_some] at h1 h2
  obtain ⟨a1, a2, a3, a4, a5⟩ := hd
  obtain ⟨b1, b2, b3, b4, b5⟩ := he
  rcases dir_cases a1 a2 with rfl | rfl | rfl <;> rcases dir_cases a3 a4 with rfl | rfl | rfl <;>
    rcases dir_cases b1 b2 with rfl | rfl | rfl <;> rcases dir_cases b3 b4 with rfl | rfl | rfl <;>
    simp only [Int.mul_neg, Int.mul_one, Int.mul_zero] at h1 h2 <;> omega

theorem stepSq_from (k f : Sq) (dx dy : Int) (j c : Nat) (hf : stepSq k.x k.y dx dy j = some f) :
    stepSq f.x f.y dx dy c = stepSq k.x k.y dx dy (j + c) := by
  rw [stepSq_eq_some] at hf
  unfold stepSq
  rw [hf.1, hf.2, Int.natCast_add, Int.add_mul, Int.add_mul]
  congr 1 <;> omega

/-! ## a pseudo-legal move does not jump over a piece -/

theorem isDir_rookDirs : ∀ dd ∈ rookDirs, IsDir dd.1 dd.2 := by
  intro dd h; simp only [rookDirs, List.mem_cons, List.mem_nil_iff, or_false] at h
  rcases h with rfl | rfl | rfl | rfl <;> (unfold IsDir; decide)
theorem isDir_bishDirs : ∀ dd ∈ bishDirs, IsDir dd.1 dd.2 := by
  intro dd h; simp only [bishDirs, List.mem_cons, List.mem_nil_iff, or_false] at h
  rcases h with rfl | rfl | rfl | rfl <;> (unfold IsDir; decide)
theorem isDir_dirs8 : ∀ dd ∈ dirs8, IsDir dd.1 dd.2 := by
  intro dd h; rw [dirs8, List.mem_append] at h
  exact h.elim (isDir_rookDirs dd) (isDir_bishDirs dd)

theorem slider_no_jump (b : Board) (f t s : Sq) (dirs : List (Int × Int)) (hdirs : ∀ dd ∈ dirs, IsDir dd.1 dd.2)
    (h : (dirs.any fun dd => rayReach b f t dd.1 dd.2) = true) (dx dy : Int) (hd : IsDir dx dy) (c i : Nat)
    (hi1 : 1 ≤ i) (hic : i < c) (hc : stepSq f.x f.y dx dy c = some t) (hs : stepSq f.x f.y dx dy i = some s) :
    b[s] = 0 := by
  rw [List.any_eq_true] at h
  obtain ⟨dd, hmem, hr⟩ := h
  rw [rayReach_iff _ _ _ _ _ (hdirs dd hmem)] at hr
  obtain ⟨c', hR⟩ := hr
  obtain ⟨e1, e2, e3⟩ := dir_unique _ _ _ _ _ _ hd (hdirs dd hmem) c' c hR.1 (by omega) t hc hR.2.1
  subst e3
  rw [← e1, ← e2] at hR
  obtain ⟨q, hq, he⟩ := hR.2.2 i hi1 hic
  rw [hs] at hq
  cases hq
  exact beq_iff_eq.1 he

/-- a pseudo-legal move of a piece other than the king along a line does not pass an occupied square -/
theorem no_jump (p : Pos) (m : Mv) (hp : pseudo p m = true) (hk : kind p.b[m.f] ≠ 1) (dx dy : Int) (hd : IsDir dx dy)
    (c i : Nat) (hi1 : 1 ≤ i) (hic : i < c) (hc : stepSq m.f.x m.f.y dx dy c = some m.t) (s : Sq)
    (hs : stepSq m.f.x m.f.y dx dy i = some s) : p.b[s] = 0 := by
  have hc' := (stepSq_eq_some _ _ _ _ _ _).1 hc
  have hs' := (stepSq_eq_some _ _ _ _ _ _).1 hs
  unfold pseudo at hp
  simp only [Bool.and_eq_true, Pos.at] at hp
  obtain ⟨_, hmv⟩ := hp
  obtain ⟨a1, a2, a3, a4, a5⟩ := hd
  split at hmv
  · -- pawn
    simp only [Bool.and_eq_true, Bool.or_eq_true, beq_iff_eq, dxy] at hmv
    obtain ⟨_, hmv⟩ := hmv
    rcases hmv with (⟨⟨h1, h2⟩, _⟩ | ⟨⟨⟨⟨h1, h2⟩, _⟩, _⟩, h5⟩) | ⟨⟨h1, h2⟩, _⟩
    · exfalso
      rcases dir_cases a1 a2 with rfl | rfl | rfl <;> rcases dir_cases a3 a4 with rfl | rfl | rfl <;>
        simp only [Int.mul_neg, Int.mul_one, Int.mul_zero] at hc' <;> cases hw : p.wtm <;> simp only [hw] at h2 <;>
        simp at h2 <;> omega
    · split at h5
      · rename_i q hq
        rw [mkSq?_eq_some] at hq
        have : q = s := by
          apply Sq.ext_xy
          · rcases dir_cases a1 a2 with rfl | rfl | rfl <;> rcases dir_cases a3 a4 with rfl | rfl | rfl <;>
              simp only [Int.mul_neg, Int.mul_one, Int.mul_zero] at hc' hs' <;> omega
          · rcases dir_cases a1 a2 with rfl | rfl | rfl <;> rcases dir_cases a3 a4 with rfl | rfl | rfl <;>
              simp only [Int.mul_neg, Int.mul_one, Int.mul_zero] at hc' hs' <;> cases hw : p.wtm <;> simp only [hw] at h2 hq <;>
              simp at h2 hq <;> omega
        subst this
        exact beq_iff_eq.1 h5
      · cases h5
    · exfalso
      rcases dir_cases a1 a2 with rfl | rfl | rfl <;> rcases dir_cases a3 a4 with rfl | rfl | rfl <;>
        simp only [Int.mul_neg, Int.mul_one, Int.mul_zero] at hc' <;> omega
  · rename_i h1; exact absurd h1 hk
  · -- knight and sliders
    simp only [Bool.and_eq_true] at hmv
    obtain ⟨_, hat⟩ := hmv
    unfold attacks at hat
    simp only at hat
    split at hat
    · rename_i h1; exact absurd h1 hk
    · exfalso
      simp only [Bool.or_eq_true, Bool.and_eq_true, beq_iff_eq, dxy] at hat
      rcases dir_cases a1 a2 with rfl | rfl | rfl <;> rcases dir_cases a3 a4 with rfl | rfl | rfl <;>
        simp only [Int.mul_neg, Int.mul_one, Int.mul_zero] at hc' <;> omega
    · rename_i h6 _ _ _ heq; exact absurd heq h6
    · exact slider_no_jump p.b m.f m.t s rookDirs isDir_rookDirs hat dx dy ⟨a1, a2, a3, a4, a5⟩ c i hi1 hic hc hs
    · exact slider_no_jump p.b m.f m.t s bishDirs isDir_bishDirs hat dx dy ⟨a1, a2, a3, a4, a5⟩ c i hi1 hic hc hs
    · exact slider_no_jump p.b m.f m.t s dirs8 isDir_dirs8 hat dx dy ⟨a1, a2, a3, a4, a5⟩ c i hi1 hic hc hs
    · cases hat

/-! ## the moved piece stays on its ray from the king -/

theorem visible_iff (occ : BB) (k s : Sq) : Visible occ k s ↔ ∃ dx dy, IsDir dx dy ∧ tst (ray occ k dx dy) s = true := by
  constructor
  · rintro (h | h)
    · obtain ⟨dx, dy, hd, h⟩ := (tst_rook_iff k s occ).1 h; exact ⟨dx, dy, hd.isDir, h⟩
    · obtain ⟨dx, dy, hd, h⟩ := (tst_bishop_iff k s occ).1 h; exact ⟨dx, dy, hd.isDir, h⟩
  · rintro ⟨dx, dy, hd, h⟩; exact visible_of_ray occ k s dx dy hd h

/-- not in check, the moved piece is seen from the king along a ray and moves along that ray (moveGen.cpp:651-652) -/
theorem same_ray_safe (p : Pos) (k : Sq) (hv : ValidB p.b) (hk : KingAt p.b p.wtm k) (m : Mv) (hp : pseudo p m = true)
    (hchk : Chess.inCheck p.b p.wtm = false) (hfk : m.f ≠ k) (hep : p.ep ≠ some m.t)
    (hdir : direction k m.f = direction k m.t) (hvis : Visible (occBB p.b) k m.f) : safeAfter p m = true := by
  unfold safeAfter
  obtain ⟨hs, hk'⟩ := simple_of_pseudo p m hp k hk hfk hep
  have hv' := validB_apply p hv m hp
  rw [inCheck_of_kingAt _ hv' _ k hk']
  rw [inCheck_of_kingAt _ hv _ k hk] at hchk
  have hnk : ¬ kind p.b[m.f] = 1 := fun h1 => hfk (hk.2 _ (king_of_kind _ _ (pseudo_own_f p m hp) h1))
  obtain ⟨dx, dy, hd, hfray⟩ := (visible_iff _ _ _).1 hvis
  obtain ⟨j, hRf⟩ := (tst_ray_iff _ _ _ _ _ hd).1 hfray
  have hdf : direction k m.f = dy * 8 + dx := (direction_iff k m.f dx dy hd).2 ⟨j, hRf.1, hRf.2.1⟩
  obtain ⟨j', hj'1, hj't⟩ := (direction_iff k m.t dx dy hd).1 (hdir ▸ hdf)
  suffices h : sqAttacked (apply p m).b p.wtm k (occBB (apply p m).b) = false by rw [h]; rfl
  apply Bool.eq_false_iff.2
  intro ha
  rw [sqAttacked_iff] at ha
  obtain ⟨s, hso, hatk⟩ := ha
  obtain ⟨hsf, hst, e⟩ := hs.enemy_after s hso
  have hocc_s : tst (occBB (apply p m).b) s = true := by
    rw [tst_occBB _ hv']; exact bne_iff_ne.2 (ne_zero_of_own _ _ hso)
  have : sqAttacked p.b p.wtm k (occBB p.b) = true := by
    rw [sqAttacked_iff]
    refine ⟨s, by rw [← e]; exact hso, ?_⟩
    rw [← e]
    apply atkFrom_transfer _ _ _ _ _ _ hatk
    intro ex ey he hr
    apply ray_transfer _ _ _ _ _ _ he hr
    intro q hqs hqv hqe
    have hqt : q ≠ m.t := by intro e; subst e; rw [hs.occ_t' hv'] at hqe; cases hqe
    by_cases hqf : q = m.f
    · exfalso
      subst hqf
      -- the ray towards `s` passes the from-square: it is the ray of the moved piece
      obtain ⟨i, hRi⟩ := (tst_ray_iff _ _ _ _ _ he).1 hqv
      obtain ⟨e1, e2, e3⟩ := dir_unique _ _ _ _ _ _ hd he i j hRi.1 hRf.1 _ hRf.2.1 hRi.2.1
      subst e1; subst e2; subst e3
      obtain ⟨n, hRs⟩ := (tst_ray_iff _ _ _ _ _ hd).1 hr
      -- order along the ray: from-square (i) < attacker (n) < to-square (j')
      have hin : i < n := by
        rcases Nat.lt_trichotomy i n with h | h | h
        · exact h
        · subst h; have h' := hRs.2.1; rw [hRi.2.1] at h'; exact absurd (Option.some.inj h') hsf.symm
        · obtain ⟨q', hq', hemp⟩ := hRi.2.2 n hRs.1 h
          rw [hRs.2.1] at hq'; cases hq'
          have hemp' : (!tst (occBB (apply p m).b) s) = true := hemp
          rw [hocc_s] at hemp'; cases hemp'
      have hnj : n < j' := by
        rcases Nat.lt_trichotomy n j' with h | h | h
        · exact h
        · subst h; have h' := hj't; rw [hRs.2.1] at h'; exact absurd (Option.some.inj h') hst
        · obtain ⟨q', hq', hemp⟩ := hRs.2.2 j' hj'1 h
          rw [hj't] at hq'; cases hq'
          have hemp' : (!tst (occBB (apply p m).b) m.t) = true := hemp
          rw [hs.occ_t' hv'] at hemp'; cases hemp'
      have h1 : stepSq m.f.x m.f.y dx dy (j' - i) = some m.t := by
        rw [stepSq_from k m.f dx dy i (j' - i) hRi.2.1, ← hj't]; congr 1; omega
      have h2 : stepSq m.f.x m.f.y dx dy (n - i) = some s := by
        rw [stepSq_from k m.f dx dy i (n - i) hRi.2.1, ← hRs.2.1]; congr 1; omega
      have := no_jump p m hp hnk dx dy hd (j' - i) (n - i) (by omega) (by omega) h1 s h2
      rw [e, this, own_zero] at hso; cases hso
    · rw [← hs.occ_other hv hv' q hqf hqt]; exact hqe
  rw [this] at hchk; cases hchk

end Chess.Texel
