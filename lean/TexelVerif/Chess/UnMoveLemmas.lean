import TexelVerif.Chess.UnMove
/-!
Lemmas for property C15: (1) everything the specification says about a position depends on its `core` only;
(2) un-making a pseudo-legal move restores the board (`unmake_apply_board`), by cases plain / castle short / castle
long / e.p. capture; (3) geometry of pseudo-legal moves (`pseudo_geom`), used to prune the oracle's candidates.
-/
namespace Chess

/-! ## the specification looks at the core only -/

def Pos.ofCore (c : Core) : Pos := { b := c.b, wtm := c.wtm, castle := c.castle, ep := c.ep, hmc := 0, fmc := 0 }

theorem pseudo_core (P : Pos) (m : Mv) : pseudo P m = pseudo (Pos.ofCore P.core) m := rfl
theorem apply_core (P : Pos) (m : Mv) : (apply P m).core = (apply (Pos.ofCore P.core) m).core := rfl
theorem legalB_core (P : Pos) (m : Mv) : legalB P m = legalB (Pos.ofCore P.core) m := rfl
theorem genLegal_core (P : Pos) : genLegal P = genLegal (Pos.ofCore P.core) := rfl
theorem fixupEP_core (P : Pos) : (fixupEP P).core = (fixupEP (Pos.ofCore P.core)).core := by
  unfold fixupEP
  show (match P.ep with | none => P | some e => if (genLegal P).any (fun m => m.t == e && kind (P.at m.f) == 6) then P else { P with ep := none }).core = (match P.ep with | none => Pos.ofCore P.core | some e => if (genLegal (Pos.ofCore P.core)).any (fun m => m.t == e && kind (P.at m.f) == 6) then Pos.ofCore P.core else { Pos.ofCore P.core with ep := none }).core
  rw [← genLegal_core]
  cases P.ep with
  | none => rfl
  | some e => simp only; split <;> rfl
theorem wfB_core (P : Pos) : wfB P = wfB (Pos.ofCore P.core) := by
  unfold wfB
  have : (fixupEP P).ep = (fixupEP (Pos.ofCore P.core)).ep := congrArg Core.ep (fixupEP_core P)
  rw [this]; rfl

/-! ## boards as functions -/

theorem getD_eq (b : Board) (i : Nat) : b.getD i 0 = if h : i < 64 then b[i] else 0 := by
  unfold Vector.getD
  simp only [Array.getD_eq_getD_getElem?]
  by_cases h : i < 64
  · simp [h]
  · simp [h]
def gt (b : Board) (i : Nat) : Pc := b.getD i 0
theorem gt_lt (b : Board) (i : Nat) (h : i < 64) : gt b i = b[i] := by unfold gt; rw [getD_eq]; simp [h]
theorem gt_ge (b : Board) (i : Nat) (h : ¬ i < 64) : gt b i = 0 := by unfold gt; rw [getD_eq]; simp [h]
theorem gt_setSq (b : Board) (n : Nat) (v : Pc) (i : Nat) : gt (setSq b n v) i = if n = i ∧ i < 64 then v else gt b i := by
  by_cases hi : i < 64
  · rw [gt_lt _ _ hi, gt_lt _ _ hi]; unfold setSq; rw [Vector.getElem_setIfInBounds]; simp [hi]
  · rw [gt_ge _ _ hi, gt_ge _ _ hi]; simp [hi]
theorem gt_at (p : Pos) (s : Sq) : p.at s = gt p.b s.val := by
  unfold Pos.at; rw [gt_lt _ _ s.isLt]; rfl
theorem board_ext (a b : Board) (h : ∀ i, i < 64 → gt a i = gt b i) : a = b := by
  apply Vector.ext
  intro i hi
  have := h i hi
  rwa [gt_lt _ _ hi, gt_lt _ _ hi] at this

/-! piece-code facts (finite) -/
set_option maxRecDepth 100000 in
theorem pc_facts : ∀ (n : Fin 256), let p := UInt8.ofNat n.val
    (kind p = 6 → isWhite p = true → p = WPAWN) ∧ (kind p = 6 → isBlack p = true → p = BPAWN) ∧
    (isWhite p = true → isBlack p = false) ∧ (isWhite p = true → p ≠ 0) ∧ (isBlack p = true → p ≠ 0) ∧
    (p ≤ 12 → isWhite p = false → isBlack p = false → p = 0) := by
  decide +kernel

theorem pc_fact (p : Pc) :
    (kind p = 6 → isWhite p = true → p = WPAWN) ∧ (kind p = 6 → isBlack p = true → p = BPAWN) ∧
    (isWhite p = true → isBlack p = false) ∧ (isWhite p = true → p ≠ 0) ∧ (isBlack p = true → p ≠ 0) ∧
    (p ≤ 12 → isWhite p = false → isBlack p = false → p = 0) := by
  have := pc_facts ⟨p.toNat, p.toNat_lt⟩
  simpa only [UInt8.ofNat_toNat] using this

theorem own_pawn (w : Bool) (p : Pc) (hk : kind p = 6) (ho : own w p = true) : p = pawnOf w := by
  cases w
  · exact (pc_fact p).2.1 hk (by simpa [own] using ho)
  · exact (pc_fact p).1 hk (by simpa [own] using ho)

theorem own_ne_zero_um (w : Bool) (p : Pc) (ho : own w p = true) : p ≠ 0 := by
  cases w
  · exact (pc_fact p).2.2.2.2.1 (by simpa [own] using ho)
  · exact (pc_fact p).2.2.2.1 (by simpa [own] using ho)

def pawnRule (p : Pos) (m : Mv) : Bool :=
  let tg := p.at m.t
  let w := p.wtm
  let d := dxy m.f m.t
  let fwd : Int := if w then 1 else -1
  let startRank : Nat := if w then 1 else 6
  promoOk w m &&
  ( (d.1 == 0 && d.2 == fwd && tg == 0) ||
    (d.1 == 0 && d.2 == 2 * fwd && m.f.y == startRank && tg == 0 &&
       (match mkSq? m.f.x ((m.f.y : Int) + fwd) with | some q => p.at q == 0 | none => false)) ||
    (d.1.natAbs == 1 && d.2 == fwd && (tg != 0 || p.ep == some m.t)) )

def kingRule (p : Pos) (m : Mv) : Bool :=
  let w := p.wtm
  let d := dxy m.f m.t
  m.promo == 0 &&
  ( (d.1.natAbs ≤ 1 && d.2.natAbs ≤ 1) ||
    (d.2 == 0 && d.1 == 2 && m.f.val == (if w then 4 else 60) && castleOk p true) ||
    (d.2 == 0 && d.1 == -2 && m.f.val == (if w then 4 else 60) && castleOk p false) )

def preRule (p : Pos) (m : Mv) : Bool := own p.wtm (p.at m.f) && !own p.wtm (p.at m.t) && m.f != m.t

theorem pseudo_pawn_um (p : Pos) (m : Mv) (h : kind (p.at m.f) = 6) : pseudo p m = (preRule p m && pawnRule p m) := by
  unfold pseudo pawnRule preRule
  simp only
  split
  · rfl
  · next h' => rw [h] at h'; cases h'
  · next h' _ => exact absurd h h'

theorem pseudo_king (p : Pos) (m : Mv) (h : kind (p.at m.f) = 1) : pseudo p m = (preRule p m && kingRule p m) := by
  unfold pseudo kingRule preRule
  simp only
  split
  · next h' => rw [h] at h'; cases h'
  · rfl
  · next _ h' => exact absurd h h'

theorem pseudo_other (p : Pos) (m : Mv) (h6 : kind (p.at m.f) ≠ 6) (h1 : kind (p.at m.f) ≠ 1) :
    pseudo p m = (preRule p m && (m.promo == 0 && attacks p.b m.f m.t)) := by
  unfold pseudo preRule
  simp only


/-- the board after the move, with the three special cases as explicit flags -/
def applyBoard (P : Pos) (m : Mv) : Board :=
  let pc := P.at m.f
  let w := P.wtm
  let isEp := kind pc == 6 && P.ep == some m.t && !(P.at m.t != 0) && m.f.x != m.t.x
  let b := P.b
  let b := if isEp then setSq b (if w then m.t.val - 8 else m.t.val + 8) 0 else b
  let b := setSq b m.f.val 0
  let b := setSq b m.t.val (if m.promo != 0 then m.promo else pc)
  if kind pc == 1 && m.t.val == m.f.val + 2 then setSq (setSq b (m.f.val + 3) 0) (m.f.val + 1) (if w then WROOK else BROOK)
  else if kind pc == 1 && m.t.val + 2 == m.f.val then setSq (setSq b (m.f.val - 4) 0) (m.f.val - 1) (if w then WROOK else BROOK)
  else b

theorem apply_b (P : Pos) (m : Mv) : (apply P m).b = applyBoard P m := rfl

theorem applyBoard_t (P : Pos) (m : Mv) (hne : m.f ≠ m.t)
    (hl : kind (P.at m.f) = 1 → m.t.val + 2 = m.f.val → 4 ≤ m.f.val) :
    (applyBoard P m)[m.t] = if m.promo != 0 then m.promo else P.at m.f := by
  have hne' : m.f.val ≠ m.t.val := fun h => hne (Fin.ext h)
  have ht := m.t.isLt
  have : (applyBoard P m)[m.t] = gt (applyBoard P m) m.t.val := (gt_lt _ _ ht).symm
  rw [this]
  unfold applyBoard
  simp only
  split
  · next h =>
    simp only [Bool.and_eq_true, beq_iff_eq] at h
    have h1 : ¬ (m.f.val + 1 = m.t.val) := by omega
    have h2 : ¬ (m.f.val + 3 = m.t.val) := by omega
    simp [gt_setSq, h1, h2, ht]
  · split
    · next h =>
      simp only [Bool.and_eq_true, beq_iff_eq] at h
      have := hl h.1 h.2
      have h1 : ¬ (m.f.val - 1 = m.t.val) := by omega
      have h2 : ¬ (m.f.val - 4 = m.t.val) := by omega
      simp [gt_setSq, h1, h2, ht]
    · simp [gt_setSq, ht]

theorem moved_eq (P : Pos) (m : Mv) (hne : m.f ≠ m.t) (hpr : m.promo ≠ 0 → P.at m.f = pawnOf P.wtm)
    (hl : kind (P.at m.f) = 1 → m.t.val + 2 = m.f.val → 4 ≤ m.f.val) :
    movedPc P.wtm (applyBoard P m)[m.t] m.promo = P.at m.f := by
  rw [applyBoard_t P m hne hl]
  unfold movedPc
  by_cases h : m.promo = 0
  · simp [h]
  · simp [h, hpr h]

/-- plain moves: no castling, no e.p. capture -/
theorem unmake_plain (P : Pos) (m : Mv) (hne : m.f ≠ m.t)
    (hc1 : (kind (P.at m.f) == 1 && m.t.val == m.f.val + 2) = false)
    (hc2 : (kind (P.at m.f) == 1 && m.t.val + 2 == m.f.val) = false)
    (hep : (kind (P.at m.f) == 6 && P.ep == some m.t) = false)
    (hpr : m.promo ≠ 0 → P.at m.f = pawnOf P.wtm) :
    unmakeBoard (applyBoard P m) P.wtm m (P.at m.t) P.ep = P.b := by
  have hne' : m.f.val ≠ m.t.val := fun h => hne (Fin.ext h)
  have hf := m.f.isLt
  have ht := m.t.isLt
  unfold unmakeBoard
  rw [moved_eq P m hne hpr (by intro h1 h2; simp [h1, h2] at hc2)]
  apply board_ext
  intro i hi
  unfold unmakeBoardP applyBoard
  simp only [hc1, hc2, hep, Bool.false_and, if_false, Bool.false_eq_true]
  simp only [gt_setSq, gt_at]
  by_cases h1 : m.f.val = i <;> by_cases h2 : m.t.val = i <;> simp_all

theorem kind_ne_of_eq {p : Pc} {a b : UInt8} (h : kind p = a) (hab : a ≠ b) : (kind p == b) = false := by
  rw [h]; simpa using hab

theorem unmake_short (P : Pos) (m : Mv) (hk : kind (P.at m.f) = 1) (ht2 : m.t.val = m.f.val + 2) (hpr : m.promo = 0)
    (h1 : gt P.b (m.f.val + 1) = 0) (h2 : P.at m.t = 0) (h3 : gt P.b (m.f.val + 3) = (if P.wtm then WROOK else BROOK)) :
    unmakeBoard (applyBoard P m) P.wtm m (P.at m.t) P.ep = P.b := by
  have hne : m.f ≠ m.t := fun h => by rw [h] at ht2; omega
  have hf := m.f.isLt
  have ht := m.t.isLt
  unfold unmakeBoard
  rw [moved_eq P m hne (fun h => absurd hpr h) (by intro _ h; omega)]
  apply board_ext
  intro i hi
  unfold unmakeBoardP applyBoard
  have e1 : (kind (P.at m.f) == 1 && m.t.val == m.f.val + 2) = true := by simp [hk, ht2]
  have e6 : (kind (P.at m.f) == 6) = false := kind_ne_of_eq hk (by decide)
  simp only [e1, e6, Bool.false_and, if_false, if_true, Bool.false_eq_true]
  simp only [gt_setSq, gt_at] at *
  by_cases c0 : m.f.val = i <;> by_cases c1 : m.f.val + 1 = i <;> by_cases c2 : m.t.val = i <;> by_cases c3 : m.f.val + 3 = i <;>
    simp_all <;> omega

theorem unmake_long (P : Pos) (m : Mv) (hk : kind (P.at m.f) = 1) (ht2 : m.t.val + 2 = m.f.val) (hf4 : 4 ≤ m.f.val) (hpr : m.promo = 0)
    (h1 : gt P.b (m.f.val - 1) = 0) (h2 : P.at m.t = 0) (h3 : gt P.b (m.f.val - 4) = (if P.wtm then WROOK else BROOK)) :
    unmakeBoard (applyBoard P m) P.wtm m (P.at m.t) P.ep = P.b := by
  have hne : m.f ≠ m.t := fun h => by rw [h] at ht2; omega
  have hf := m.f.isLt
  have ht := m.t.isLt
  unfold unmakeBoard
  rw [moved_eq P m hne (fun h => absurd hpr h) (by intro _ _; exact hf4)]
  apply board_ext
  intro i hi
  unfold unmakeBoardP applyBoard
  have e0 : (kind (P.at m.f) == 1 && m.t.val == m.f.val + 2) = false := by
    have : ¬ (m.t.val = m.f.val + 2) := by omega
    simp [this]
  have e1 : (kind (P.at m.f) == 1 && m.t.val + 2 == m.f.val) = true := by simp [hk, ht2]
  have e6 : (kind (P.at m.f) == 6) = false := kind_ne_of_eq hk (by decide)
  simp only [e0, e1, e6, Bool.false_and, if_false, if_true, Bool.false_eq_true]
  simp only [gt_setSq, gt_at] at *
  by_cases c0 : m.f.val = i <;> by_cases c1 : m.f.val - 1 = i <;> by_cases c2 : m.t.val = i <;> by_cases c3 : m.f.val - 4 = i <;>
    simp_all <;> omega

theorem unmake_ep (P : Pos) (m : Mv) (hk : kind (P.at m.f) = 6) (hep : P.ep = some m.t) (hpr : m.promo = 0)
    (hx : m.f.x ≠ m.t.x) (h2 : P.at m.t = 0)
    (hw : P.wtm = true → 8 ≤ m.t.val ∧ m.f.val ≠ m.t.val - 8 ∧ gt P.b (m.t.val - 8) = BPAWN)
    (hb : P.wtm = false → m.t.val + 8 < 64 ∧ m.f.val ≠ m.t.val + 8 ∧ gt P.b (m.t.val + 8) = WPAWN) :
    unmakeBoard (applyBoard P m) P.wtm m (P.at m.t) P.ep = P.b := by
  have hne : m.f ≠ m.t := fun h => by rw [h] at hx; exact hx rfl
  have hne' : m.f.val ≠ m.t.val := fun h => hne (Fin.ext h)
  have hf := m.f.isLt
  have ht := m.t.isLt
  have e1 : (kind (P.at m.f) == 1) = false := kind_ne_of_eq hk (by decide)
  unfold unmakeBoard
  rw [moved_eq P m hne (fun h => absurd hpr h) (by intro h; rw [hk] at h; cases h)]
  apply board_ext
  intro i hi
  unfold unmakeBoardP applyBoard
  have e6 : (kind (P.at m.f) == 6 && P.ep == some m.t) = true := by simp [hk, hep]
  have e7 : (!(P.at m.t != 0) && m.f.x != m.t.x) = true := by simp [h2, hx]
  simp only [e1, e6, Bool.true_and, e7, Bool.false_and, if_false, if_true, Bool.false_eq_true]
  cases hwt : P.wtm
  · obtain ⟨a1, a2, a3⟩ := hb hwt
    simp only [gt_setSq, gt_at, Bool.false_eq_true, if_false] at *
    by_cases c0 : m.f.val = i <;> by_cases c1 : m.t.val + 8 = i <;> by_cases c2 : m.t.val = i <;> simp_all <;> omega
  · obtain ⟨a1, a2, a3⟩ := hw hwt
    simp only [gt_setSq, gt_at, if_true] at *
    by_cases c0 : m.f.val = i <;> by_cases c1 : m.t.val - 8 = i <;> by_cases c2 : m.t.val = i <;> simp_all <;> omega

theorem castleOk_short (p : Pos) (h : castleOk p true = true) :
    gt p.b ((if p.wtm then 4 else 60) + 1) = 0 ∧ gt p.b ((if p.wtm then 4 else 60) + 2) = 0 ∧
    gt p.b ((if p.wtm then 4 else 60) + 3) = (if p.wtm then WROOK else BROOK) := by
  unfold castleOk at h
  simp only [Bool.and_eq_true, if_true, beq_iff_eq] at h
  unfold gt
  exact ⟨h.2.1.1.1, h.2.1.1.2, h.2.1.2⟩

theorem castleOk_long (p : Pos) (h : castleOk p false = true) :
    gt p.b ((if p.wtm then 4 else 60) - 1) = 0 ∧ gt p.b ((if p.wtm then 4 else 60) - 2) = 0 ∧
    gt p.b ((if p.wtm then 4 else 60) - 4) = (if p.wtm then WROOK else BROOK) := by
  unfold castleOk at h
  simp only [Bool.and_eq_true, Bool.false_eq_true, if_false, beq_iff_eq] at h
  unfold gt
  exact ⟨h.2.1.1.1.1, h.2.1.1.1.2, h.2.1.2⟩

theorem kingRule_facts (p : Pos) (m : Mv) (h : kingRule p m = true) :
    m.promo = 0 ∧
    (m.t.val = m.f.val + 2 → m.f.val = (if p.wtm then 4 else 60) ∧ castleOk p true = true) ∧
    (m.t.val + 2 = m.f.val → m.f.val = (if p.wtm then 4 else 60) ∧ castleOk p false = true) := by
  unfold kingRule dxy at h
  simp only [Bool.and_eq_true, Bool.or_eq_true, beq_iff_eq, Sq.x, Sq.y] at h
  obtain ⟨hpr, hc⟩ := h
  have hf := m.f.isLt
  have ht := m.t.isLt
  refine ⟨hpr, ?_, ?_⟩
  · intro e
    rcases hc with (⟨a, b⟩ | ⟨⟨⟨a, b⟩, c⟩, d⟩) | ⟨⟨⟨a, b⟩, c⟩, d⟩
    · have a := of_decide_eq_true a; have b := of_decide_eq_true b; exfalso; omega
    · exact ⟨c, d⟩
    · exfalso; split at c <;> omega
  · intro e
    rcases hc with (⟨a, b⟩ | ⟨⟨⟨a, b⟩, c⟩, d⟩) | ⟨⟨⟨a, b⟩, c⟩, d⟩
    · have a := of_decide_eq_true a; have b := of_decide_eq_true b; exfalso; omega
    · exfalso; split at c <;> omega
    · exact ⟨c, d⟩

theorem pawn_ep_facts (p : Pos) (m : Mv) (ho : own p.wtm (p.at m.f) = true)
    (hr : pawnRule p m = true) (hs : epShape p = true) (he : p.ep = some m.t) :
    m.promo = 0 ∧ m.f.x ≠ m.t.x ∧ p.at m.t = 0 ∧
    (p.wtm = true → 8 ≤ m.t.val ∧ m.f.val ≠ m.t.val - 8 ∧ gt p.b (m.t.val - 8) = BPAWN) ∧
    (p.wtm = false → m.t.val + 8 < 64 ∧ m.f.val ≠ m.t.val + 8 ∧ gt p.b (m.t.val + 8) = WPAWN) := by
  have hf := m.f.isLt
  have ht := m.t.isLt
  unfold epShape at hs
  rw [he] at hs
  unfold pawnRule promoOk dxy at hr
  rw [gt_at] at ho
  cases hw : p.wtm
  · simp only [hw, Bool.false_eq_true, if_false, Bool.and_eq_true, Bool.or_eq_true, beq_iff_eq, Sq.x, Sq.y] at hs hr ho
    obtain ⟨⟨⟨⟨s1, s2⟩, s3⟩, s4⟩, s5⟩ := hs
    obtain ⟨r1, r2⟩ := hr
    have hpr : m.promo = 0 := by
      rw [if_neg (by omega)] at r1; exact eq_of_beq r1
    have hfne : m.f.val ≠ m.t.val + 8 := by
      intro e
      change gt p.b (m.t.val + 8) = WPAWN at s3
      rw [e, s3] at ho
      revert ho; decide
    refine ⟨hpr, ?_, s2, ?_, ?_⟩
    rotate_left
    · intro h; cases h
    · exact fun _ => ⟨by omega, hfne, s3⟩
    simp only [Sq.x]
    rcases r2 with (⟨⟨a, b⟩, c⟩ | ⟨⟨⟨⟨a, b⟩, c⟩, d⟩, e⟩) | ⟨⟨a, b⟩, c⟩
    · exfalso; omega
    · exfalso; omega
    · omega
  · simp only [hw, if_true, Bool.and_eq_true, Bool.or_eq_true, beq_iff_eq, Sq.x, Sq.y] at hs hr ho
    obtain ⟨⟨⟨⟨s1, s2⟩, s3⟩, s4⟩, s5⟩ := hs
    obtain ⟨r1, r2⟩ := hr
    have hpr : m.promo = 0 := by
      rw [if_neg (by omega)] at r1; exact eq_of_beq r1
    have hfne : m.f.val ≠ m.t.val - 8 := by
      intro e
      change gt p.b (m.t.val - 8) = BPAWN at s3
      rw [e, s3] at ho
      revert ho; decide
    refine ⟨hpr, ?_, s2, ?_, ?_⟩
    rotate_left
    · exact fun _ => ⟨by omega, hfne, s3⟩
    · intro h; cases h
    simp only [Sq.x]
    rcases r2 with (⟨⟨a, b⟩, c⟩ | ⟨⟨⟨⟨a, b⟩, c⟩, d⟩, e⟩) | ⟨⟨a, b⟩, c⟩
    · exfalso; omega
    · exfalso; omega
    · omega

theorem preRule_facts (p : Pos) (m : Mv) (h : preRule p m = true) :
    own p.wtm (p.at m.f) = true ∧ own p.wtm (p.at m.t) = false ∧ m.f ≠ m.t := by
  unfold preRule at h
  simp only [Bool.and_eq_true, Bool.not_eq_true', bne_iff_ne, ne_eq] at h
  exact ⟨h.1.1, h.1.2, h.2⟩

/-- **un-making the move restores the board** -/
theorem unmake_apply_board (P : Pos) (m : Mv) (hp : pseudo P m = true) (hs : epShape P = true) :
    unmakeBoard (apply P m).b P.wtm m (P.at m.t) P.ep = P.b := by
  rw [apply_b]
  by_cases k1 : kind (P.at m.f) = 1
  · rw [pseudo_king P m k1, Bool.and_eq_true] at hp
    obtain ⟨hpre, hk⟩ := hp
    obtain ⟨_, _, hne⟩ := preRule_facts P m hpre
    obtain ⟨hpr, hS, hL⟩ := kingRule_facts P m hk
    have e6 : (kind (P.at m.f) == 6) = false := kind_ne_of_eq k1 (by decide)
    by_cases a : m.t.val = m.f.val + 2
    · obtain ⟨hh, hc⟩ := hS a
      obtain ⟨c1, c2, c3⟩ := castleOk_short P hc
      rw [← hh] at c1 c2 c3
      exact unmake_short P m k1 a hpr c1 (by rw [gt_at, a]; exact c2) c3
    · by_cases b : m.t.val + 2 = m.f.val
      · obtain ⟨hh, hc⟩ := hL b
        obtain ⟨c1, c2, c3⟩ := castleOk_long P hc
        rw [← hh] at c1 c2 c3
        have : 4 ≤ m.f.val := by rw [hh]; split <;> decide
        have t2 : m.t.val = m.f.val - 2 := by omega
        have c2' : P.at m.t = 0 := by rw [gt_at, t2]; exact c2
        exact unmake_long P m k1 b this hpr c1 c2' c3
      · exact unmake_plain P m hne (by simp [a]) (by simp [b]) (by simp [e6]) (fun h => absurd hpr h)
  · have e1 : (kind (P.at m.f) == 1) = false := by simpa using k1
    by_cases k6 : kind (P.at m.f) = 6
    · rw [pseudo_pawn_um P m k6, Bool.and_eq_true] at hp
      obtain ⟨hpre, hk⟩ := hp
      obtain ⟨ho, _, hne⟩ := preRule_facts P m hpre
      by_cases e : P.ep = some m.t
      · obtain ⟨a1, a2, a3, a4, a5⟩ := pawn_ep_facts P m ho hk hs e
        exact unmake_ep P m k6 e a1 a2 a3 a4 a5
      · exact unmake_plain P m hne (by simp [e1]) (by simp [e1]) (by simp [e]) (fun _ => own_pawn _ _ k6 ho)
    · rw [pseudo_other P m k6 k1, Bool.and_eq_true, Bool.and_eq_true] at hp
      obtain ⟨hpre, hpr, _⟩ := hp
      obtain ⟨_, _, hne⟩ := preRule_facts P m hpre
      have e6 : (kind (P.at m.f) == 6) = false := by simpa using k6
      exact unmake_plain P m hne (by simp [e1]) (by simp [e1]) (by simp [e6]) (fun h => absurd (eq_of_beq hpr) h)

/-! ## geometry of pseudo-legal moves -/

theorem mkSq?_some (x y : Int) (q : Sq) (h : mkSq? x y = some q) : (q.x : Int) = x ∧ (q.y : Int) = y := by
  unfold mkSq? at h
  split at h
  · next hc =>
    injection h with h
    subst h
    simp only [Sq.x, Sq.y]
    omega
  · cases h

theorem rayGo_spec (b : Board) (t : Sq) (dx dy : Int) : ∀ (n : Nat) (x y : Int), rayGo b t dx dy n x y = true →
    ∃ k : Int, (t.x : Int) = x + k * dx ∧ (t.y : Int) = y + k * dy := by
  intro n
  induction n with
  | zero => intro x y h; simp [rayGo] at h
  | succ n ih =>
    intro x y h
    unfold rayGo at h
    split at h
    · cases h
    · next q hq =>
      obtain ⟨hx, hy⟩ := mkSq?_some _ _ _ hq
      split at h
      · next he =>
        have : q = t := by simpa using he
        subst this
        exact ⟨1, by omega, by omega⟩
      · split at h
        · cases h
        · obtain ⟨k, h1, h2⟩ := ih _ _ h
          refine ⟨k + 1, ?_, ?_⟩
          · rw [h1, Int.add_mul, Int.one_mul]; omega
          · rw [h2, Int.add_mul, Int.one_mul]; omega

def aligned (m : Mv) : Bool :=
  let d := dxy m.f m.t
  d.1 == 0 || d.2 == 0 || d.1.natAbs == d.2.natAbs

theorem rayReach_aligned (b : Board) (m : Mv) (dd : Int × Int) (hd : dd ∈ dirs8) (h : rayReach b m.f m.t dd.1 dd.2 = true) :
    aligned m = true := by
  unfold rayReach at h
  obtain ⟨k, h1, h2⟩ := rayGo_spec b m.t dd.1 dd.2 7 _ _ h
  unfold aligned dxy
  simp only [dirs8, rookDirs, bishDirs, List.cons_append, List.nil_append, List.mem_cons, List.not_mem_nil, or_false] at hd
  simp only [Bool.or_eq_true, beq_iff_eq]
  rcases hd with rfl | rfl | rfl | rfl | rfl | rfl | rfl | rfl <;> simp only [] at h1 h2 <;> omega

theorem any_rayReach_aligned (b : Board) (m : Mv) (l : List (Int × Int)) (hl : ∀ dd ∈ l, dd ∈ dirs8)
    (h : (l.any fun dd => rayReach b m.f m.t dd.1 dd.2) = true) : aligned m = true := by
  rw [List.any_eq_true] at h
  obtain ⟨dd, hm, hr⟩ := h
  exact rayReach_aligned b m dd (hl dd hm) hr

theorem pseudo_geom (p : Pos) (m : Mv) (h : pseudo p m = true) : geomB (p.at m.f) m = true := by
  by_cases k6 : kind (p.at m.f) = 6
  · rw [pseudo_pawn_um p m k6, Bool.and_eq_true] at h
    have hr := h.2
    unfold geomB
    rw [k6]
    unfold pawnRule at hr
    simp only [Bool.and_eq_true, Bool.or_eq_true, beq_iff_eq, decide_eq_true_eq] at hr ⊢
    obtain ⟨_, r2⟩ := hr
    rcases r2 with (⟨⟨a, b⟩, c⟩ | ⟨⟨⟨⟨a, b⟩, c⟩, d⟩, e⟩) | ⟨⟨a, b⟩, c⟩ <;> (split at b <;> omega)
  · by_cases k1 : kind (p.at m.f) = 1
    · rw [pseudo_king p m k1, Bool.and_eq_true] at h
      have hr := h.2
      unfold geomB
      rw [k1]
      unfold kingRule at hr
      simp only [Bool.and_eq_true, Bool.or_eq_true, beq_iff_eq, decide_eq_true_eq] at hr ⊢
      obtain ⟨_, r2⟩ := hr
      rcases r2 with (⟨a, b⟩ | ⟨⟨⟨a, b⟩, c⟩, d⟩) | ⟨⟨⟨a, b⟩, c⟩, d⟩ <;> omega
    · rw [pseudo_other p m k6 k1, Bool.and_eq_true, Bool.and_eq_true] at h
      have ha := h.2.2
      unfold attacks at ha
      unfold geomB
      unfold Pos.at at k6 k1 ⊢
      simp only at ha ⊢
      split at ha
      · next hk => exact absurd hk k1
      · next hk => rw [hk]; exact ha
      · next hk => exact absurd hk k6
      · next hk => rw [hk]; exact any_rayReach_aligned p.b m rookDirs (fun _ h => List.mem_append_left _ h) ha
      · next hk => rw [hk]; exact any_rayReach_aligned p.b m bishDirs (fun _ h => List.mem_append_right _ h) ha
      · next hk => rw [hk]; exact any_rayReach_aligned p.b m dirs8 (fun _ h => h) ha
      · cases ha

/-! ## frame: what a move leaves alone -/

/-- squares the move does not touch keep their contents -/
theorem applyBoard_frame (P : Pos) (m : Mv) (i : Nat) (h1 : i ≠ m.f.val) (h2 : i ≠ m.t.val)
    (h3 : P.ep = some m.t → i ≠ (if P.wtm then m.t.val - 8 else m.t.val + 8))
    (h4 : kind (P.at m.f) = 1 → m.t.val = m.f.val + 2 → (i ≠ m.f.val + 1 ∧ i ≠ m.f.val + 3))
    (h5 : kind (P.at m.f) = 1 → m.t.val + 2 = m.f.val → (i ≠ m.f.val - 1 ∧ i ≠ m.f.val - 4)) :
    gt (applyBoard P m) i = gt P.b i := by
  unfold applyBoard
  simp only
  have hb0 : gt (if (kind (P.at m.f) == 6 && P.ep == some m.t && !(P.at m.t != 0) && m.f.x != m.t.x) = true
      then setSq P.b (if P.wtm = true then m.t.val - 8 else m.t.val + 8) 0 else P.b) i = gt P.b i := by
    split
    · next h =>
      simp only [Bool.and_eq_true, beq_iff_eq] at h
      rw [gt_setSq, if_neg (fun hh => h3 h.1.1.2 hh.1.symm)]
    · rfl
  generalize (if (kind (P.at m.f) == 6 && P.ep == some m.t && !(P.at m.t != 0) && m.f.x != m.t.x) = true
      then setSq P.b (if P.wtm = true then m.t.val - 8 else m.t.val + 8) 0 else P.b) = b0 at hb0 ⊢
  rw [← hb0]
  split
  · next h =>
    simp only [Bool.and_eq_true, beq_iff_eq] at h
    obtain ⟨a, b⟩ := h4 h.1 h.2
    simp only [gt_setSq]
    rw [if_neg (by omega), if_neg (by omega), if_neg (by omega), if_neg (by omega)]
  · split
    · next h =>
      simp only [Bool.and_eq_true, beq_iff_eq] at h
      obtain ⟨a, b⟩ := h5 h.1 h.2
      simp only [gt_setSq]
      rw [if_neg (by omega), if_neg (by omega), if_neg (by omega), if_neg (by omega)]
    · simp only [gt_setSq]
      rw [if_neg (by omega), if_neg (by omega)]

/-- a square off the first and last rank that the move neither leaves, nor enters, nor clears by an e.p. capture -/
theorem square_stays (P : Pos) (m : Mv) (i : Nat) (hp : pseudo P m = true) (hi : 8 ≤ i ∧ i < 56)
    (h1 : i ≠ m.f.val) (h2 : i ≠ m.t.val)
    (h3 : P.ep = some m.t → i ≠ (if P.wtm then m.t.val - 8 else m.t.val + 8)) :
    gt (applyBoard P m) i = gt P.b i := by
  have hK : kind (P.at m.f) = 1 → (m.t.val = m.f.val + 2 ∨ m.t.val + 2 = m.f.val) → (m.f.val = 4 ∨ m.f.val = 60) := by
    intro k1 hc
    rw [pseudo_king P m k1, Bool.and_eq_true] at hp
    obtain ⟨_, hS, hL⟩ := kingRule_facts P m hp.2
    rcases hc with c | c
    · have := (hS c).1; split at this <;> omega
    · have := (hL c).1; split at this <;> omega
  apply applyBoard_frame P m i h1 h2 h3
  · intro k1 c; have := hK k1 (Or.inl c); omega
  · intro k1 c; have := hK k1 (Or.inr c); omega

theorem pseudo_own_f (P : Pos) (m : Mv) (hp : pseudo P m = true) : own P.wtm (gt P.b m.f.val) = true := by
  rw [← gt_at]
  by_cases k6 : kind (P.at m.f) = 6
  · rw [pseudo_pawn_um P m k6, Bool.and_eq_true] at hp; exact (preRule_facts P m hp.1).1
  · by_cases k1 : kind (P.at m.f) = 1
    · rw [pseudo_king P m k1, Bool.and_eq_true] at hp; exact (preRule_facts P m hp.1).1
    · rw [pseudo_other P m k6 k1, Bool.and_eq_true] at hp; exact (preRule_facts P m hp.1).1

/-- what the successor's board shows around the predecessor's e.p. square `e` -/
theorem ep_traces (P : Pos) (m : Mv) (e : Sq) (hp : pseudo P m = true) (hs : epShape P = true) (he : P.ep = some e) :
    let i := if P.wtm then e.val - 8 else e.val + 8
    let j := if P.wtm then e.val + 8 else e.val - 8
    (gt (applyBoard P m) i = (if P.wtm then BPAWN else WPAWN) ∨ m.t.val = i ∨ m.t = e) ∧
    (gt (applyBoard P m) e.val = 0 ∨ m.t = e) ∧ (gt (applyBoard P m) j = 0 ∨ m.t.val = j) := by
  have hown := pseudo_own_f P m hp
  have hf := m.f.isLt
  have ht := m.t.isLt
  have hel := e.isLt
  unfold epShape at hs
  rw [he] at hs
  have hne0 : ∀ k, gt P.b k = 0 → k ≠ m.f.val := by
    intro k hk h; rw [← h, hk] at hown; revert hown; cases P.wtm <;> decide
  cases hw : P.wtm
  · simp only [hw, Bool.false_eq_true, if_false, Bool.and_eq_true, beq_iff_eq, Sq.y] at hs hown ⊢
    obtain ⟨⟨⟨⟨s1, s2⟩, s3⟩, s4⟩, s5⟩ := hs
    change gt P.b (e.val + 8) = WPAWN at s3
    change gt P.b (e.val - 8) = 0 at s4
    rw [gt_at] at s2
    have hep : P.ep = some m.t → m.t = e := fun h => by rw [he] at h; injection h with h; exact h.symm
    refine ⟨?_, ?_, ?_⟩
    · by_cases t2 : m.t = e
      · exact Or.inr (Or.inr t2)
      · by_cases t1 : m.t.val = e.val + 8
        · exact Or.inr (Or.inl t1)
        · left
          rw [square_stays P m (e.val + 8) hp (by omega) ?_ (fun h => t1 h.symm) (fun h => absurd (hep h) t2)]
          · exact s3
          · intro h; rw [← h, s3] at hown; revert hown; decide
    · by_cases t2 : m.t = e
      · exact Or.inr t2
      · left
        rw [square_stays P m e.val hp (by omega) (hne0 _ s2) (fun h => t2 (Fin.ext h.symm)) (fun h => absurd (hep h) t2)]
        exact s2
    · by_cases t1 : m.t.val = e.val - 8
      · exact Or.inr t1
      · left
        rw [square_stays P m (e.val - 8) hp (by omega) (hne0 _ s4) (fun h => t1 h.symm) ?_]
        · exact s4
        · intro h; have := hep h; rw [this, hw]; simp only [Bool.false_eq_true, if_false]; omega
  · simp only [hw, if_true, Bool.and_eq_true, beq_iff_eq, Sq.y] at hs hown ⊢
    obtain ⟨⟨⟨⟨s1, s2⟩, s3⟩, s4⟩, s5⟩ := hs
    change gt P.b (e.val - 8) = BPAWN at s3
    change gt P.b (e.val + 8) = 0 at s4
    rw [gt_at] at s2
    have hep : P.ep = some m.t → m.t = e := fun h => by rw [he] at h; injection h with h; exact h.symm
    refine ⟨?_, ?_, ?_⟩
    · by_cases t2 : m.t = e
      · exact Or.inr (Or.inr t2)
      · by_cases t1 : m.t.val = e.val - 8
        · exact Or.inr (Or.inl t1)
        · left
          rw [square_stays P m (e.val - 8) hp (by omega) ?_ (fun h => t1 h.symm) (fun h => absurd (hep h) t2)]
          · exact s3
          · intro h; rw [← h, s3] at hown; revert hown; decide
    · by_cases t2 : m.t = e
      · exact Or.inr t2
      · left
        rw [square_stays P m e.val hp (by omega) (hne0 _ s2) (fun h => t2 (Fin.ext h.symm)) (fun h => absurd (hep h) t2)]
        exact s2
    · by_cases t1 : m.t.val = e.val + 8
      · exact Or.inr t1
      · left
        rw [square_stays P m (e.val + 8) hp (by omega) (hne0 _ s4) (fun h => t1 h.symm) ?_]
        · exact s4
        · intro h; have := hep h; rw [this, hw]; simp only [if_true]; omega
end Chess
