import TexelVerif.Chess.HashIdx
/-! After the C17 repair every accepted FEN has both counters in `0 … 65535`. -/
namespace Chess

theorem clampCounter_range (v : Int) : 0 ≤ clampCounter v ∧ clampCounter v ≤ 65535 := by
  unfold clampCounter maxMoveCounter; omega

theorem counterOfWord_range (w : List Char) (d : Int) (hd : 0 ≤ d ∧ d ≤ 65535) :
    0 ≤ counterOfWord w d ∧ counterOfWord w d ≤ 65535 := by
  unfold counterOfWord
  split
  · exact clampCounter_range _
  · exact hd

theorem finishRead_counters (b : Board) (wtm : Bool) (cm : UInt8) (ep : Option Sq) (h f : Int) (r : RawPos)
    (hr : finishRead b wtm cm ep h f = .ok r) : r.hmc = h ∧ r.fmc = f := by
  unfold finishRead at hr
  repeat' split at hr
  all_goals first | (cases hr; exact ⟨rfl, rfl⟩) | cases hr

/-- **the repaired reader**: both counters of an accepted FEN are in `0 … 65535` -/
theorem readFENRaw_counters (s : String) (r : RawPos) (h : readFENRaw s = .ok r) :
    0 ≤ r.hmc ∧ r.hmc ≤ 65535 ∧ 0 ≤ r.fmc ∧ r.fmc ≤ 65535 := by
  unfold readFENRaw at h
  simp only [bind, Except.bind, pure, Except.pure] at h
  split at h
  · cases h
  split at h
  · cases h
  split at h
  · cases h
  split at h
  · cases h
  obtain ⟨h1, h2⟩ := finishRead_counters _ _ _ _ _ _ _ h
  rw [h1, h2]
  refine ⟨?_, ?_, ?_, ?_⟩
  all_goals split
  all_goals first | omega | exact (counterOfWord_range _ _ (by omega)).1 | exact (counterOfWord_range _ _ (by omega)).2

end Chess
