import TexelVerif.Chess.SAN
import TexelVerif.Chess.SpecLemmas
/-!
# Lemmas for the move-text round trip (property C17)

Part 1: what `stringToMove`'s character loop computes on the texts `moveToString` can emit (`Shape`).
-/
namespace Chess

private theorem lt8_cases (x : Nat) (h : x < 8) : x = 0 ∨ x = 1 ∨ x = 2 ∨ x = 3 ∨ x = 4 ∨ x = 5 ∨ x = 6 ∨ x = 7 := by omega

theorem parseStep_file (w : Bool) (n : Nat) (st : PSt) (i x : Nat) (h : x < 8) :
    parseStep w n st i (fileCh x) =
      { st with info := if st.atToSq || st.info.fromX ≥ 0 then { st.info with toX := x } else { st.info with fromX := x } } := by
  rcases lt8_cases x h with rfl | rfl | rfl | rfl | rfl | rfl | rfl | rfl <;>
    simp [parseStep, fileCh, charToPiece]

theorem parseStep_rank (w : Bool) (n : Nat) (st : PSt) (i y : Nat) (h : y < 8) :
    parseStep w n st i (rankCh y) =
      { st with info := if st.atToSq || st.info.fromY ≥ 0 then { st.info with toY := y } else { st.info with fromY := y } } := by
  rcases lt8_cases y h with rfl | rfl | rfl | rfl | rfl | rfl | rfl | rfl <;>
    simp [parseStep, rankCh, charToPiece]

theorem parseStep_x (w : Bool) (n : Nat) (st : PSt) (i : Nat) :
    parseStep w n st i 'x' = { st with atToSq := true, capture := true } := by
  simp [parseStep, charToPiece]

theorem parseStep_dash (w : Bool) (n : Nat) (st : PSt) (i : Nat) :
    parseStep w n st i '-' = { st with atToSq := true } := by
  simp [parseStep, charToPiece]

/-- the five piece letters `pieceToChar` can produce -/
def IsLetter (c : Char) : Prop := c = 'K' ∨ c = 'Q' ∨ c = 'R' ∨ c = 'B' ∨ c = 'N'

theorem charToPiece_letter_nonneg (w : Bool) (c : Char) (h : IsLetter c) : charToPiece w c ≥ 0 := by
  rcases h with rfl | rfl | rfl | rfl | rfl <;> cases w <;> decide

theorem parseStep_letter_first (w : Bool) (n : Nat) (st : PSt) (c : Char) (h : IsLetter c) :
    parseStep w n st 0 c = { st with info := { st.info with piece := charToPiece w c } } := by
  unfold parseStep
  have := charToPiece_letter_nonneg w c h
  simp [this]

theorem parseStep_letter_last (w : Bool) (n : Nat) (st : PSt) (i : Nat) (c : Char) (h : IsLetter c) (hi : i ≠ 0) (hn : i + 1 = n) :
    parseStep w n st i c = { st with info := { st.info with promPiece := charToPiece w c } } := by
  subst hn
  rcases h with rfl | rfl | rfl | rfl | rfl <;> cases w <;> simp [parseStep, charToPiece, hi]

end Chess

namespace Chess

/-- the texts `sanBody` can produce: optional piece letter, optional from-file, optional from-rank, optional
    separator (`some true` = 'x', `some false` = '-'), the target square, optional promotion letter -/
structure Shape where
  letter : Option Char
  fx : Option Nat
  fy : Option Nat
  sep : Option Bool
  tx : Nat
  ty : Nat
  promo : Option Char

def Shape.Valid (s : Shape) : Prop :=
  (∀ c, s.letter = some c → IsLetter c) ∧ (∀ x, s.fx = some x → x < 8) ∧ (∀ y, s.fy = some y → y < 8) ∧
  s.tx < 8 ∧ s.ty < 8 ∧ (∀ c, s.promo = some c → IsLetter c)

def sepChars : Option Bool → List Char
  | some true => ['x']
  | some false => ['-']
  | none => []

def Shape.render (s : Shape) : List Char :=
  s.letter.toList ++ (s.fx.map fileCh).toList ++ (s.fy.map rankCh).toList ++ sepChars s.sep ++
  [fileCh s.tx, rankCh s.ty] ++ s.promo.toList

/-- the constraint record `stringToMove` derives from a shape -/
def Shape.info (w : Bool) (s : Shape) : MoveInfo :=
  { piece := match s.letter with
      | some c => charToPiece w c
      | none => if s.fx.isSome && s.fy.isSome then -1 else ((ownPawn w).toNat : Int)
    fromX := match s.fx with | some x => (x : Int) | none => -1
    fromY := match s.fy with | some y => (y : Int) | none => -1
    toX := s.tx
    toY := s.ty
    promPiece := match s.promo with | some c => charToPiece w c | none => 0 }

theorem parseGo_append (w : Bool) (n i : Nat) (a b : List Char) (st : PSt) :
    parseGo w n i (a ++ b) st = parseGo w n (i + a.length) b (parseGo w n i a st) := by
  induction a generalizing i st with
  | nil => simp [parseGo]
  | cons c cs ih => simp only [List.cons_append, parseGo, ih, List.length_cons]; congr 1; omega

end Chess

namespace Chess

theorem natCast_lt_zero (n : Nat) : ((n : Int) < 0) = False := by simp
theorem natCast_ge_zero (n : Nat) : ((0 : Int) ≤ (n : Int)) = True := by simp

set_option maxHeartbeats 1600000 in
theorem parse_render (w : Bool) (s : Shape) (h : s.Valid) :
    finishInfo w (parseGo w s.render.length 0 s.render {}).info = s.info w ∧
    (parseGo w s.render.length 0 s.render {}).capture = (s.sep == some true) := by
  obtain ⟨letter, fx, fy, sep, tx, ty, promo⟩ := s
  obtain ⟨hl, hfx, hfy, htx, hty, hpr⟩ := h
  simp only at hl hfx hfy htx hty hpr
  have hL : ∀ c, letter = some c → (charToPiece w c < 0) = False := by
    intro c hc; have := charToPiece_letter_nonneg w c (hl c hc); simp; omega
  have hR : ∀ c, promo = some c → (charToPiece w c < 0) = False := by
    intro c hc; have := charToPiece_letter_nonneg w c (hpr c hc); simp; omega
  have e1 := fun n st i => parseStep_file w n st i tx htx
  have e2 := fun n st i => parseStep_rank w n st i ty hty
  have e3 : ∀ c, letter = some c → ∀ n st, parseStep w n st 0 c = { st with info := { st.info with piece := charToPiece w c } } :=
    fun c hc n st => parseStep_letter_first w n st c (hl c hc)
  have e4 : ∀ c, promo = some c → ∀ n st i, i ≠ 0 → i + 1 = n →
      parseStep w n st i c = { st with info := { st.info with promPiece := charToPiece w c } } :=
    fun c hc n st i hi hn => parseStep_letter_last w n st i c (hpr c hc) hi hn
  have e5 : ∀ x, fx = some x → ∀ n st i, parseStep w n st i (fileCh x) =
      { st with info := if st.atToSq || st.info.fromX ≥ 0 then { st.info with toX := x } else { st.info with fromX := x } } :=
    fun x hx n st i => parseStep_file w n st i x (hfx x hx)
  have e6 : ∀ y, fy = some y → ∀ n st i, parseStep w n st i (rankCh y) =
      { st with info := if st.atToSq || st.info.fromY ≥ 0 then { st.info with toY := y } else { st.info with fromY := y } } :=
    fun y hy n st i => parseStep_rank w n st i y (hfy y hy)
  rcases letter with _ | c <;> rcases fx with _ | x <;> rcases fy with _ | y <;> rcases promo with _ | r <;> rcases sep with _ | _ | _
  all_goals
    simp only [Shape.render, Shape.info, sepChars, Option.toList, Option.map, List.cons_append, List.nil_append, List.append_nil,
      List.length_cons, List.length_nil, parseGo, Option.isSome, Bool.and_true, Bool.and_false]
  all_goals
    simp (disch := first | rfl | omega) only [e1, e2, parseStep_x, parseStep_dash, e3, e4, e5, e6]
  all_goals
    simp [finishInfo, natCast_lt_zero, hL, hR]

end Chess

/-! Part 2: piece codes and their letters -/
namespace Chess

def letterOK (w : Bool) (pc : Pc) : Bool :=
  match pieceLetter pc with
  | [c] => (c == 'K' || c == 'Q' || c == 'R' || c == 'B' || c == 'N') && charToPiece w c == (pc.toNat : Int)
  | _ => false

set_option maxRecDepth 100000 in
theorem own_letter_fin : ∀ (w : Bool) (n : Fin 256),
    (own w (UInt8.ofNat n.val) && UInt8.ofNat n.val != ownPawn w) = true → letterOK w (UInt8.ofNat n.val) = true := by
  decide +kernel

set_option maxRecDepth 100000 in
theorem promo_letter_fin : ∀ (w : Bool) (n : Fin 256),
    isPromoPiece w (UInt8.ofNat n.val) = true → letterOK w (UInt8.ofNat n.val) = true := by
  decide +kernel

set_option maxRecDepth 100000 in
theorem own_kind_fin : ∀ (w : Bool) (n : Fin 256),
    own w (UInt8.ofNat n.val) = true → ((kind (UInt8.ofNat n.val) == 6) = (UInt8.ofNat n.val == ownPawn w)) := by
  decide +kernel

theorem letterOK_spec (w : Bool) (pc : Pc) (h : letterOK w pc = true) :
    ∃ c, pieceLetter pc = [c] ∧ IsLetter c ∧ charToPiece w c = (pc.toNat : Int) := by
  unfold letterOK at h
  split at h
  · rename_i c hc
    simp only [Bool.and_eq_true, Bool.or_eq_true, beq_iff_eq] at h
    refine ⟨c, hc, ?_, h.2⟩
    unfold IsLetter
    rcases h.1 with (((h | h) | h) | h) | h <;> simp [h]
  · exact absurd h (by decide)

theorem own_letter (w : Bool) (pc : Pc) (h1 : own w pc = true) (h2 : pc ≠ ownPawn w) :
    ∃ c, pieceLetter pc = [c] ∧ IsLetter c ∧ charToPiece w c = (pc.toNat : Int) := by
  have := own_letter_fin w ⟨pc.toNat, pc.toNat_lt⟩
  simp only [UInt8.ofNat_toNat] at this
  exact letterOK_spec w pc (this (by simp [h1, h2]))

theorem promo_letter (w : Bool) (pr : Pc) (h : isPromoPiece w pr = true) :
    ∃ c, pieceLetter pr = [c] ∧ IsLetter c ∧ charToPiece w c = (pr.toNat : Int) := by
  have := promo_letter_fin w ⟨pr.toNat, pr.toNat_lt⟩
  simp only [UInt8.ofNat_toNat] at this
  exact letterOK_spec w pr (this h)

theorem own_kind_pawn (w : Bool) (pc : Pc) (h : own w pc = true) : (kind pc == 6) = (pc == ownPawn w) := by
  have := own_kind_fin w ⟨pc.toNat, pc.toNat_lt⟩
  simp only [UInt8.ofNat_toNat] at this
  exact this h

theorem pieceLetter_pawn (w : Bool) : pieceLetter (ownPawn w) = [] := by cases w <;> decide
theorem pieceLetter_zero : pieceLetter 0 = [] := by decide

end Chess

/-! Part 3: lists, and what legality says about promotions and pawn moves -/
namespace Chess

theorem two_le_length_filter {α} [DecidableEq α] (P : α → Bool) (L : List α) (a b : α) (ha : a ∈ L) (hb : b ∈ L)
    (hab : a ≠ b) (pa : P a = true) (pb : P b = true) : 2 ≤ (L.filter P).length := by
  induction L with
  | nil => cases ha
  | cons x xs ih =>
    rcases List.mem_cons.1 ha with rfl | ha' <;> rcases List.mem_cons.1 hb with rfl | hb'
    · exact absurd rfl hab
    · have : b ∈ xs.filter P := List.mem_filter.2 ⟨hb', pb⟩
      have := List.length_pos_of_mem this
      simp only [List.filter_cons, pa, if_true, List.length_cons]; omega
    · have : a ∈ xs.filter P := List.mem_filter.2 ⟨ha', pa⟩
      have := List.length_pos_of_mem this
      simp only [List.filter_cons, pb, if_true, List.length_cons]; omega
    · have := ih ha' hb'
      rw [List.filter_cons]; split
      · simp only [List.length_cons]; omega
      · exact this

theorem filter_eq_singleton {α} [DecidableEq α] (P : α → Bool) (L : List α) (m : α) (hnd : L.Nodup) (hm : m ∈ L)
    (pm : P m = true) (huniq : ∀ x ∈ L, P x = true → x = m) : L.filter P = [m] := by
  induction L with
  | nil => cases hm
  | cons x xs ih =>
    have hnd' := List.nodup_cons.1 hnd
    rcases List.mem_cons.1 hm with rfl | hm'
    · have : xs.filter P = [] := by
        apply List.filter_eq_nil_iff.2
        intro y hy py
        have := huniq y (List.mem_cons_of_mem _ hy) (by simpa using py)
        exact hnd'.1 (this ▸ hy)
      simp [pm, this]
    · have hx : P x = false := by
        cases hpx : P x
        · rfl
        · have := huniq x List.mem_cons_self hpx
          exact absurd (this ▸ hm') hnd'.1
      rw [List.filter_cons, hx]
      exact ih hnd'.2 hm' (fun y hy => huniq y (List.mem_cons_of_mem _ hy))

theorem sq_ext (s t : Sq) (hx : s.x = t.x) (hy : s.y = t.y) : s = t := by
  apply Fin.ext
  unfold Sq.x Sq.y at *
  omega

theorem mkSq?_xy (s : Sq) : mkSq? (s.x : Int) (s.y : Int) = some s := by
  unfold mkSq? Sq.x Sq.y
  have := s.isLt
  rw [dif_pos (by omega)]
  congr 1
  apply Fin.ext
  simp only
  omega

theorem legal_pseudo (p : Pos) (m : Mv) (h : legalB p m = true) : pseudo p m = true := by
  unfold legalB at h; simp only [Bool.and_eq_true] at h; exact h.1

theorem candidates_nodup (p : Pos) : (candidates p).Nodup := by
  unfold candidates
  unfold List.Nodup
  rw [List.pairwise_flatMap]
  constructor
  · intro f _
    rw [List.pairwise_flatMap]
    constructor
    · intro t _
      rw [List.pairwise_map]
      have : (promos p.wtm).Nodup := by unfold promos; cases p.wtm <;> decide
      exact List.Pairwise.imp (fun h hc => h (by simpa using congrArg Mv.promo hc)) this
    · have : (allSq).Nodup := List.nodup_finRange 64
      refine List.Pairwise.imp ?_ this
      intro a b hab x hx y hy hxy
      simp only [List.mem_map] at hx hy
      obtain ⟨_, _, rfl⟩ := hx
      obtain ⟨_, _, rfl⟩ := hy
      exact hab (by simpa using congrArg Mv.t hxy)
  · have : (allSq.filter fun f => own p.wtm (p.at f)).Nodup := List.Pairwise.filter _ (List.nodup_finRange 64)
    refine List.Pairwise.imp ?_ this
    intro a b hab x hx y hy hxy
    simp only [List.mem_flatMap, List.mem_map] at hx hy
    obtain ⟨_, _, _, _, rfl⟩ := hx
    obtain ⟨_, _, _, _, rfl⟩ := hy
    exact hab (by simpa using congrArg Mv.f hxy)

theorem genLegal_nodup (p : Pos) : (genLegal p).Nodup := List.Pairwise.filter _ (candidates_nodup p)

end Chess
