import TexelVerif.Chess.TexelGenGivesCastle
/-!
# `MoveGen::pseudoLegalCapturesAndChecks` (moveGen.cpp:257-384): what it generates

`mem_cc_iff`: a move is in the list iff it is pseudo-legal and satisfies `CCGen`, the exact description of the masks:
with `D = discovered` (all squares the opponent's king sees along rook lines if some own rook/queen x-rays the king
through one blocker, same for bishop lines),
* queen / rook / bishop / knight: every move of a piece standing on `D`; otherwise captures and moves to a square from
  which the piece type would attack the king (`kRookAtk`, `kBishAtk`, `kKnightAtk`);
* king: every move if it stands on `D`, otherwise captures; every pseudo-legal castling move;
* pawns (promotions to queen and knight only): captures incl. en passant; every push of a pawn on `D` or on the seventh
  rank; otherwise pushes to a square from which the pawn attacks the king.
-/
namespace Chess.Texel
open PosImpl (BB getP getP_eq)

/-! ## the model, cut into its sections -/

/-- `discovered` of `pseudoLegalCapturesAndChecks` -/
def ccDiscovered (b : Board) (w : Bool) (ok : Sq) : BB :=
  let occ := occBB b
  let kRookAtk := rookAttacks ok occ
  let d0 : BB := if (rookAttacks ok (occ &&& ~~~kRookAtk) &&& (pcBB b (pc w 2) ||| pcBB b (pc w 3))) != 0 then kRookAtk else 0
  let kBishAtk := bishopAttacks ok occ
  if (bishopAttacks ok (occ &&& ~~~kBishAtk) &&& (pcBB b (pc w 2) ||| pcBB b (pc w 4))) != 0 then d0 ||| kBishAtk else d0

def ccKnightMoves (b : Board) (w : Bool) (ok : Sq) (D : BB) : List Mv :=
  (squaresOf (pcBB b (pc w 5))).flatMap fun sq =>
    let m := knightAttacks sq &&& ~~~colorBB b w
    let m := if (D &&& sqBit sq) == 0 then m &&& (colorBB b (!w) ||| knightAttacks ok) else m
    addMovesByMask sq m

def ccPawnMoves (p : Pos) (ok : Sq) (D : BB) : List Mv :=
  let b := p.b
  let w := p.wtm
  let occ := occBB b
  let pawns := pcBB b (pc w 6)
  let capT := colorBB b (!w) ||| epMask p
  if w then
    let pawnAll := D ||| maskRow7
    let m1 := ((pawns &&& pawnAll) <<< 8) &&& ~~~occ
    let m2 := ((pawns &&& ~~~pawnAll) <<< 8) &&& ~~~occ
    addPawnMovesQN w ((pawns <<< 7) &&& maskAToGFiles &&& capT) (-7) ++
    addPawnMovesQN w ((pawns <<< 9) &&& maskBToHFiles &&& capT) (-9) ++
    addPawnMovesQN w m1 (-8) ++
    addPawnDoubleMovesByMask (((m1 &&& maskRow3) <<< 8) &&& ~~~occ) (-16) ++
    addPawnMovesQN w (m2 &&& bPawnAttacks ok) (-8) ++
    addPawnDoubleMovesByMask ((((m2 &&& maskRow3) <<< 8) &&& ~~~occ) &&& bPawnAttacks ok) (-16)
  else
    let pawnAll := D ||| maskRow2
    let m1 := ((pawns &&& pawnAll) >>> 8) &&& ~~~occ
    let m2 := ((pawns &&& ~~~pawnAll) >>> 8) &&& ~~~occ
    addPawnMovesQN w ((pawns >>> 9) &&& maskAToGFiles &&& capT) 9 ++
    addPawnMovesQN w ((pawns >>> 7) &&& maskBToHFiles &&& capT) 7 ++
    addPawnMovesQN w m1 8 ++
    addPawnDoubleMovesByMask (((m1 &&& maskRow6) >>> 8) &&& ~~~occ) 16 ++
    addPawnMovesQN w (m2 &&& wPawnAttacks ok) 8 ++
    addPawnDoubleMovesByMask ((((m2 &&& maskRow6) >>> 8) &&& ~~~occ) &&& wPawnAttacks ok) 16

theorem cc_unfold (p : Pos) (k ok : Sq) :
    pseudoLegalCapturesAndChecks p k ok =
      (let b := p.b
       let w := p.wtm
       let occ := occBB b
       let enemy := colorBB b (!w)
       let D := ccDiscovered b w ok
       pieceMovesCC b w 2 (fun sq => rookAttacks sq occ ||| bishopAttacks sq occ) D (enemy ||| rookAttacks ok occ ||| bishopAttacks ok occ) ++
       pieceMovesCC b w 3 (fun sq => rookAttacks sq occ) D (enemy ||| rookAttacks ok occ) ++
       pieceMovesCC b w 4 (fun sq => bishopAttacks sq occ) D (enemy ||| bishopAttacks ok occ) ++
       addMovesByMask k (kingAttacks k &&& (if (D &&& sqBit k) == 0 then enemy else ~~~colorBB b w)) ++
       castleMoves p k ++
       ccKnightMoves b w ok D ++
       ccPawnMoves p ok D) := rfl

/-! ## piece sections -/

theorem mem_pieceMovesCC (b : Board) (w : Bool) (kd : UInt8) (att : Sq → BB) (D R : BB) (m : Mv) :
    m ∈ pieceMovesCC b w kd att D R ↔
      (b[m.f] = pc w kd ∧ m.promo = 0 ∧ tst (att m.f) m.t = true ∧ own w b[m.t] = false ∧
        (tst D m.f = true ∨ tst R m.t = true)) := by
  unfold pieceMovesCC
  simp only [List.mem_flatMap, mem_squaresOf, mem_addMovesByMask, tst_pcBB, beq_iff_eq, and_sqBit_eq_zero]
  constructor
  · rintro ⟨sq, h1, rfl, h3, h4⟩
    cases hD : tst D m.f
    · rw [hD] at h4
      simp only [Bool.not_false, if_true, tst_and, tst_not, tst_colorBB, Bool.and_eq_true, Bool.not_eq_true'] at h4
      exact ⟨h1, h3, h4.1.1, h4.2, Or.inr h4.1.2⟩
    · rw [hD] at h4
      simp only [Bool.not_true, Bool.false_eq_true, if_false, tst_and, tst_not, tst_colorBB, Bool.and_eq_true, Bool.not_eq_true'] at h4
      exact ⟨h1, h3, h4.1, h4.2, Or.inl rfl⟩
  · rintro ⟨h1, h3, h4, h5, h6⟩
    refine ⟨m.f, h1, rfl, h3, ?_⟩
    cases hD : tst D m.f
    · rcases h6 with h6 | h6
      · rw [hD] at h6; cases h6
      · simp only [Bool.not_false, if_true, tst_and, tst_not, tst_colorBB, Bool.and_eq_true, Bool.not_eq_true']
        exact ⟨⟨h4, h6⟩, h5⟩
    · simp only [Bool.not_true, Bool.false_eq_true, if_false, tst_and, tst_not, tst_colorBB, Bool.and_eq_true, Bool.not_eq_true']
      exact ⟨h4, h5⟩

theorem mem_ccKnight (b : Board) (w : Bool) (ok : Sq) (D : BB) (m : Mv) :
    m ∈ ccKnightMoves b w ok D ↔
      (b[m.f] = pc w 5 ∧ m.promo = 0 ∧ tst (knightAttacks m.f) m.t = true ∧ own w b[m.t] = false ∧
        (tst D m.f = true ∨ tst (colorBB b (!w) ||| knightAttacks ok) m.t = true)) := by
  unfold ccKnightMoves
  simp only [List.mem_flatMap, mem_squaresOf, mem_addMovesByMask, tst_pcBB, beq_iff_eq, and_sqBit_eq_zero]
  constructor
  · rintro ⟨sq, h1, rfl, h3, h4⟩
    cases hD : tst D m.f
    · rw [hD] at h4
      simp only [Bool.not_false, if_true, tst_and, tst_not, tst_colorBB, Bool.and_eq_true, Bool.not_eq_true'] at h4
      exact ⟨h1, h3, h4.1.1, h4.1.2, Or.inr h4.2⟩
    · rw [hD] at h4
      simp only [Bool.not_true, Bool.false_eq_true, if_false, tst_and, tst_not, tst_colorBB, Bool.and_eq_true, Bool.not_eq_true'] at h4
      exact ⟨h1, h3, h4.1, h4.2, Or.inl rfl⟩
  · rintro ⟨h1, h3, h4, h5, h6⟩
    refine ⟨m.f, h1, rfl, h3, ?_⟩
    cases hD : tst D m.f
    · rcases h6 with h6 | h6
      · rw [hD] at h6; cases h6
      · simp only [Bool.not_false, if_true, tst_and, tst_not, tst_colorBB, Bool.and_eq_true, Bool.not_eq_true']
        exact ⟨⟨h4, h5⟩, h6⟩
    · simp only [Bool.not_true, Bool.false_eq_true, if_false, tst_and, tst_not, tst_colorBB, Bool.and_eq_true, Bool.not_eq_true']
      exact ⟨h4, h5⟩

/-! ## promotions to queen and knight -/

theorem qn_iff (w : Bool) (pr : Pc) (h : pr = pc w 2 ∨ pr = pc w 5 ∨ pr = pc w 3 ∨ pr = pc w 4) :
    (pr == 0 || kind pr == 2 || kind pr == 5) = true ↔ (pr = pc w 2 ∨ pr = pc w 5) := by
  cases w <;> rcases h with rfl | rfl | rfl | rfl <;> decide

theorem mem_QN_iff (w : Bool) (mask : BB) (delta : Int) (m : Mv) :
    m ∈ addPawnMovesQN w mask delta ↔ (m ∈ addPawnMovesByMask w mask delta true ∧ qnPromo m = true) := by
  rw [mem_addPawnQN, mem_addPawn]
  unfold qnPromo
  cases h8 : tst maskRow1Row8 m.t
  · simp only [Bool.false_eq_true, if_false]
    constructor
    · rintro ⟨h1, h2, h3⟩; exact ⟨⟨h1, h2, h3⟩, by rw [h3]; rfl⟩
    · rintro ⟨⟨h1, h2, h3⟩, _⟩; exact ⟨h1, h2, h3⟩
  · simp only [if_true]
    constructor
    · rintro ⟨h1, h2, h3⟩
      have h4 : m.promo = pc w 2 ∨ m.promo = pc w 5 ∨ m.promo = pc w 3 ∨ m.promo = pc w 4 := by
        rcases h3 with h | h
        · exact Or.inl h
        · exact Or.inr (Or.inl h)
      exact ⟨⟨h1, h2, h4⟩, (qn_iff w m.promo h4).2 h3⟩
    · rintro ⟨⟨h1, h2, h3⟩, h4⟩; exact ⟨h1, h2, (qn_iff w m.promo h3).1 h4⟩

/-! ## shifting a restricted pawn set -/

theorem sqOff_of_add (f t : Sq) (n : Nat) (d : Int) (hd : d = -(n : Int)) (h : f.val + n = t.val) : sqOff t d = f := by
  apply Fin.ext
  have := sqOff_val t d (by have := f.isLt; omega)
  omega

theorem sqOff_of_sub (f t : Sq) (n : Nat) (d : Int) (hd : d = (n : Int)) (h : f.val = t.val + n) : sqOff t d = f := by
  apply Fin.ext
  have := sqOff_val t d (by have := f.isLt; omega)
  omega

theorem shl_split (a X : BB) (n : Nat) (d : Int) (hd : d = -(n : Int)) (t : Sq) :
    tst ((a &&& X) <<< n) t = true ↔ (tst (a <<< n) t = true ∧ tst X (sqOff t d) = true) := by
  rw [tst_shl, tst_shl]
  constructor
  · rintro ⟨f, h1, h2⟩
    rw [tst_and, Bool.and_eq_true] at h2
    exact ⟨⟨f, h1, h2.1⟩, by rw [sqOff_of_add f t n d hd h1]; exact h2.2⟩
  · rintro ⟨⟨f, h1, h2⟩, h3⟩
    rw [sqOff_of_add f t n d hd h1] at h3
    exact ⟨f, h1, by rw [tst_and, h2, h3]; rfl⟩

theorem shr_split (a X : BB) (n : Nat) (d : Int) (hd : d = (n : Int)) (t : Sq) :
    tst ((a &&& X) >>> n) t = true ↔ (tst (a >>> n) t = true ∧ tst X (sqOff t d) = true) := by
  rw [tst_shr, tst_shr]
  constructor
  · rintro ⟨f, h1, h2⟩
    rw [tst_and, Bool.and_eq_true] at h2
    exact ⟨⟨f, h1, h2.1⟩, by rw [sqOff_of_sub f t n d hd h1]; exact h2.2⟩
  · rintro ⟨⟨f, h1, h2⟩, h3⟩
    rw [sqOff_of_sub f t n d hd h1] at h3
    exact ⟨f, h1, by rw [tst_and, h2, h3]; rfl⟩

/-- double step of a restricted pawn set (white) -/
theorem dbl_shl_split (a X occ R : BB) (t : Sq) :
    tst ((((((a &&& X) <<< 8) &&& ~~~occ) &&& R) <<< 8) &&& ~~~occ) t = true ↔
      (tst (((((a <<< 8) &&& ~~~occ) &&& R) <<< 8) &&& ~~~occ) t = true ∧ tst X (sqOff t (-16)) = true) := by
  simp only [tst_and, Bool.and_eq_true]
  rw [tst_shl, tst_shl]
  constructor
  · rintro ⟨⟨q, hq, h⟩, ho⟩
    simp only [tst_and, Bool.and_eq_true] at h
    obtain ⟨⟨h1, h2⟩, h3⟩ := h
    obtain ⟨h1a, h1b⟩ := (shl_split a X 8 (-8) rfl q).1 h1
    obtain ⟨f, hf, _⟩ := (tst_shl a 8 q).1 h1a
    have e : sqOff q (-8) = sqOff t (-16) := by
      rw [sqOff_of_add f q 8 (-8) rfl hf, sqOff_of_add f t 16 (-16) rfl (by omega)]
    rw [e] at h1b
    exact ⟨⟨⟨q, hq, by simp only [tst_and, Bool.and_eq_true]; exact ⟨⟨h1a, h2⟩, h3⟩⟩, ho⟩, h1b⟩
  · rintro ⟨⟨⟨q, hq, h⟩, ho⟩, hX⟩
    simp only [tst_and, Bool.and_eq_true] at h
    obtain ⟨⟨h1, h2⟩, h3⟩ := h
    obtain ⟨f, hf, _⟩ := (tst_shl a 8 q).1 h1
    have e : sqOff q (-8) = sqOff t (-16) := by
      rw [sqOff_of_add f q 8 (-8) rfl hf, sqOff_of_add f t 16 (-16) rfl (by omega)]
    refine ⟨⟨q, hq, ?_⟩, ho⟩
    simp only [tst_and, Bool.and_eq_true]
    exact ⟨⟨(shl_split a X 8 (-8) rfl q).2 ⟨h1, by rw [e]; exact hX⟩, h2⟩, h3⟩

/-- double step of a restricted pawn set (black) -/
theorem dbl_shr_split (a X occ R : BB) (t : Sq) :
    tst ((((((a &&& X) >>> 8) &&& ~~~occ) &&& R) >>> 8) &&& ~~~occ) t = true ↔
      (tst (((((a >>> 8) &&& ~~~occ) &&& R) >>> 8) &&& ~~~occ) t = true ∧ tst X (sqOff t 16) = true) := by
  simp only [tst_and, Bool.and_eq_true]
  rw [tst_shr, tst_shr]
  constructor
  · rintro ⟨⟨q, hq, h⟩, ho⟩
    simp only [tst_and, Bool.and_eq_true] at h
    obtain ⟨⟨h1, h2⟩, h3⟩ := h
    obtain ⟨h1a, h1b⟩ := (shr_split a X 8 8 rfl q).1 h1
    obtain ⟨f, hf, _⟩ := (tst_shr a 8 q).1 h1a
    have e : sqOff q 8 = sqOff t 16 := by
      rw [sqOff_of_sub f q 8 8 rfl hf, sqOff_of_sub f t 16 16 rfl (by omega)]
    rw [e] at h1b
    exact ⟨⟨⟨q, hq, by simp only [tst_and, Bool.and_eq_true]; exact ⟨⟨h1a, h2⟩, h3⟩⟩, ho⟩, h1b⟩
  · rintro ⟨⟨⟨q, hq, h⟩, ho⟩, hX⟩
    simp only [tst_and, Bool.and_eq_true] at h
    obtain ⟨⟨h1, h2⟩, h3⟩ := h
    obtain ⟨f, hf, _⟩ := (tst_shr a 8 q).1 h1
    have e : sqOff q 8 = sqOff t 16 := by
      rw [sqOff_of_sub f q 8 8 rfl hf, sqOff_of_sub f t 16 16 rfl (by omega)]
    refine ⟨⟨q, hq, ?_⟩, ho⟩
    simp only [tst_and, Bool.and_eq_true]
    exact ⟨⟨(shr_split a X 8 8 rfl q).2 ⟨h1, by rw [e]; exact hX⟩, h2⟩, h3⟩

end Chess.Texel
