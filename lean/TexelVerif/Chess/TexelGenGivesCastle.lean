import TexelVerif.Chess.TexelGenGivesEp
/-!
`MoveGen::givesCheck` for castling (`gives_castle`) and the theorem for all moves (`givesCheck_eq`, `givesCheck_legal`).
Castling vacates the king's home square and a corner and fills the two squares between; the only new attacker can be
the rook (along the back rank through the vacated home square, or up its file): the fourth block of `givesCheck`.
-/
namespace Chess.Texel
open PosImpl (BB getP getP_eq)

/-- castling towards `σ` (`1` = king side): king `f → t`, rook `r → r'` -/
structure CastleGeo (b b' : Board) (w : Bool) (f t r r' : Sq) (σ : Int) : Prop where
  hσ : σ = 1 ∨ σ = -1
  fx : (f.x : Int) = 4
  fy : (f.y : Int) = (if w then 0 else 7)
  ty : t.y = f.y
  ry : r.y = f.y
  r'y : r'.y = f.y
  r'x : (r'.x : Int) = 4 + σ
  tx : (t.x : Int) = 4 + 2 * σ
  rx : (r.x : Int) = (if σ = 1 then 7 else 0)
  bf : b[f] = (if w then WKING else BKING)
  br : b[r] = (if w then WROOK else BROOK)
  empties : ∀ q : Sq, q.y = f.y → 0 < σ * ((q.x : Int) - 4) → q ≠ r → b[q] = 0
  after : ∀ q : Sq, b'[q] = if q = r' then (if w then WROOK else BROOK) else if q = r then 0
    else if q = t then (if w then WKING else BKING) else if q = f then 0 else b[q]

theorem oking_ne (w : Bool) : (if (!w) then WKING else BKING) ≠ (if w then WKING else BKING) ∧
    (if (!w) then WKING else BKING) ≠ (if w then WROOK else BROOK) ∧ (if (!w) then WKING else BKING) ≠ (0 : Pc) := by
  cases w <;> decide

namespace CastleGeo
variable {b b' : Board} {w : Bool} {f t r r' : Sq} {σ : Int}

theorem distinct (g : CastleGeo b b' w f t r r' σ) : f ≠ t ∧ f ≠ r ∧ f ≠ r' ∧ t ≠ r ∧ t ≠ r' ∧ r ≠ r' := by
  have h1 := g.fx; have h2 := g.tx; have h3 := g.rx; have h4 := g.r'x
  have hne : ∀ a c : Sq, (a.x : Int) ≠ c.x → a ≠ c := fun a c h e => h (by rw [e])
  rcases g.hσ with rfl | rfl <;> simp at h2 h3 h4 <;>
    exact ⟨hne _ _ (by omega), hne _ _ (by omega), hne _ _ (by omega), hne _ _ (by omega), hne _ _ (by omega), hne _ _ (by omega)⟩

theorem change (g : CastleGeo b b' w f t r r' σ) :
    Change b b' w (fun q => q = f ∨ q = r) (fun q => q = t ∨ q = r') := by
  obtain ⟨d1, d2, d3, d4, d5, d6⟩ := g.distinct
  refine ⟨?_, ?_, ?_⟩
  · intro q h1 h2
    have h1' : ¬ (q = f ∨ q = r) := h1
    have h2' : ¬ (q = t ∨ q = r') := h2
    rw [g.after q, if_neg (fun e => h2' (Or.inr e)), if_neg (fun e => h1' (Or.inr e)), if_neg (fun e => h2' (Or.inl e)),
      if_neg (fun e => h1' (Or.inl e))]
  · intro q h1
    have h1' : q = f ∨ q = r := h1
    rcases h1' with e | e
    · subst e; rw [g.after q, if_neg d3, if_neg d2, if_neg d1, if_pos rfl]
    · subst e; rw [g.after q, if_neg d6, if_pos rfl]
  · intro q h1
    have h1' : q = t ∨ q = r' := h1
    rcases h1' with e | e
    · subst e; rw [g.after q, if_neg d5, if_neg d4, if_pos rfl]; exact own_king w
    · subst e; rw [g.after q, if_pos rfl]; exact own_rook w

/-- the enemy king is not on the back rank on the castling side, nor on a vacated or filled square -/
theorem king_off (g : CastleGeo b b' w f t r r' σ) (K : Sq) (hK : KingAt b (!w) K) :
    ¬ (K.y = f.y ∧ 0 < σ * ((K.x : Int) - 4)) ∧ K ≠ f := by
  obtain ⟨n1, n2, n3⟩ := oking_ne w
  constructor
  · rintro ⟨h1, h2⟩
    by_cases e : K = r
    · have := hK.1; rw [e, g.br] at this; exact n2 this.symm
    · have := hK.1; rw [g.empties K h1 h2 e] at this; exact n3 this.symm
  · intro e
    have := hK.1; rw [e, g.bf] at this; exact n1 this.symm

/-- **castling gives check iff the rook does**: along the back rank through the king's home square, or up its file -/
theorem attacked_iff (g : CastleGeo b b' w f t r r' σ) (hv : ValidB b) (hv' : ValidB b') (K : Sq) (hK : KingAt b (!w) K)
    (hno : sqAttacked b (!w) K (occBB b) = false) (hkk : kingGeom K t = false) (τ : Int) (hτ : τ = -σ) :
    sqAttacked b' (!w) K (occBB b') = true ↔
      ((∃ n, Seg b f τ 0 n K) ∨ (∃ n, Seg b r' 0 (if w then 1 else -1) n K)) := by
  have hch := g.change
  obtain ⟨d1, d2, d3, d4, d5, d6⟩ := g.distinct
  obtain ⟨hoff, hKf⟩ := g.king_off K hK
  have hfx := g.fx; have hfy := g.fy; have hty := g.ty; have hry := g.ry; have hr'y := g.r'y
  have hr'x := g.r'x; have htx := g.tx; have hrx := g.rx
  have hb'r' : b'[r'] = (if w then WROOK else BROOK) := by rw [g.after r', if_pos rfl]
  have hb't : b'[t] = (if w then WKING else BKING) := by rw [g.after t, if_neg d5, if_neg d4, if_pos rfl]
  have hkr : kind (if w then WROOK else BROOK) = 3 := by cases w <;> rfl
  have hxK := Sq.x_lt K; have hyK := Sq.y_lt K
  rw [hch.attacked_iff hv hv' K hno]
  constructor
  · rintro (⟨q, hF, hatk⟩ | ⟨s, dx, dy, n, j, v, hFs, hVs, hso, hsl, hseg, hj1, hjn, hVv, hsv⟩)
    · have hF' : q = t ∨ q = r' := hF
      rcases hF' with e | e
      · subst e
        rw [hb't, atkFrom_king _ _ _ _ (kind_king w), hkk] at hatk; cases hatk
      · subst e
        rw [hb'r'] at hatk
        rcases atkFrom_cases _ _ _ _ hatk with ⟨hk, _⟩ | ⟨hk, _⟩ | ⟨hk, _⟩ | ⟨dx, dy, hsl, hr⟩
        · rw [hkr] at hk; exact absurd hk (by decide)
        · rw [hkr] at hk; exact absurd hk (by decide)
        · rw [hkr] at hk; exact absurd hk (by decide)
        · have hrd : RookD dx dy := by
            rcases hsl with ⟨h, _⟩ | ⟨_, h⟩
            · exact h
            · rw [hkr] at h; rcases h with h | h <;> exact absurd h (by decide)
          have hd := hrd.isDir
          obtain ⟨n, hseg⟩ := (tst_ray_seg b' hv' K q dx dy hd).1 hr
          have hst := (stepSq_eq_some _ _ _ _ _ _).1 hseg.step
          have hn := hseg.pos
          by_cases hdy : dy = 0
          · subst hdy
            have hdx : dx = 1 ∨ dx = -1 := by unfold RookD at hrd; omega
            simp only [Int.mul_zero, Int.add_zero] at hst
            by_cases hside : dx = σ
            · -- the king is beyond the home square
              subst hside
              left
              have hn2 : 2 ≤ n := by
                rcases Nat.lt_or_ge n 2 with h | h
                · exfalso
                  have : n = 1 := by omega
                  subst this
                  apply hKf
                  exact Sq.ext_xy _ _ (by simp at hst; omega) (by omega)
                · exact h
              have hfq : stepSq K.x K.y dx 0 (n - 1) = some f := by
                rw [stepSq_eq_some]
                have : ((n - 1 : Nat) : Int) = (n : Int) - 1 := by omega
                rw [this]
                rcases g.hσ with rfl | rfl <;> simp at hst ⊢ <;> omega
              have s1 := hseg.pre (n - 1) f (by omega) (by omega) hfq
              have s2 : Seg b K dx 0 (n - 1) f := hch.seg_before s1 (fun l c h1 h2 hc hV => by
                have hV' : c = f ∨ c = r := hV
                have hcq := (stepSq_eq_some _ _ _ _ _ _).1 hc
                have hl : (l : Int) < (n : Int) - 1 := by omega
                rcases hV' with e | e
                · rw [e] at hcq; rcases g.hσ with rfl | rfl <;> simp at hst hcq <;> omega
                · rw [e] at hcq; rcases g.hσ with rfl | rfl <;> simp at hst hcq hrx <;> omega)
              have s3 := s2.rev
              rw [Int.neg_zero, ← hτ] at s3
              exact ⟨n - 1, s3⟩
            · -- the king would have to stand beyond the king's destination square
              exfalso
              have hdx' : dx = -σ := by rcases g.hσ with rfl | rfl <;> omega
              subst hdx'
              rcases Nat.lt_or_ge n 2 with h | h
              · have : n = 1 := by omega
                subst this
                apply hoff
                refine ⟨by omega, ?_⟩
                rcases g.hσ with rfl | rfl <;> simp at hst ⊢ <;> omega
              · have htq : stepSq K.x K.y (-σ) 0 (n - 1) = some t := by
                  rw [stepSq_eq_some]
                  have : ((n - 1 : Nat) : Int) = (n : Int) - 1 := by omega
                  rw [this]
                  rcases g.hσ with rfl | rfl <;> simp at hst ⊢ <;> omega
                have := hseg.inner_zero (n - 1) t (by omega) (by omega) htq
                rw [hb't] at this
                exact (zero_ne_king w) this.symm
          · -- up the rook's file
            right
            have hdx : dx = 0 := by unfold RookD at hrd; omega
            subst hdx
            have hdy' : dy = 1 ∨ dy = -1 := by unfold RookD at hrd; omega
            have hup : -dy = (if w then 1 else -1) := by
              cases w <;> simp at hfy ⊢ <;> rcases hdy' with rfl | rfl <;> simp at hst <;> omega
            have s1 := hseg.rev
            have s2 : Seg b q (-0) (-dy) n K := hch.seg_before s1 (fun l c h1 h2 hc hV => by
              have hV' : c = f ∨ c = r := hV
              have hcq := (stepSq_eq_some _ _ _ _ _ _).1 hc
              have hcy : c.y = f.y := by rcases hV' with e | e <;> rw [e] <;> omega
              rcases hdy' with rfl | rfl <;> simp at hcq <;> omega)
            rw [Int.neg_zero, hup] at s2
            exact ⟨n, s2⟩
    · -- no discovered attack: a line through the home square or the corner would leave the board
      exfalso
      have hd := hsl.isDir
      have hVv' : v = f ∨ v = r := hVv
      have hvq := (stepSq_eq_some _ _ _ _ _ _).1 hsv.step
      obtain ⟨c, hc⟩ : ∃ c, stepSq K.x K.y dx dy (j + 1) = some c := by
        rcases Nat.lt_or_ge (j + 1) n with h | h
        · obtain ⟨c, hc, _⟩ := hseg.inner (j + 1) (by omega) h; exact ⟨c, hc⟩
        · have : j + 1 = n := by omega
          rw [this]; exact ⟨s, hseg.step⟩
      have hcq := (stepSq_eq_some _ _ _ _ _ _).1 hc
      have hj' : ((j + 1 : Nat) : Int) = (j : Int) + 1 := by omega
      rw [hj'] at hcq
      have hxc := Sq.x_lt c; have hyc := Sq.y_lt c
      have hvy : (v.y : Int) = (if w then 0 else 7) := by rcases hVv' with e | e <;> rw [e] <;> omega
      obtain ⟨a1, a2, a3, a4, a5⟩ := hd
      have hdy : dy = 0 := by
        cases w <;> simp at hvy <;> rcases dir_cases a3 a4 with rfl | rfl | rfl <;>
          simp only [Int.mul_neg, Int.mul_one, Int.mul_zero] at hvq hcq <;> omega
      subst hdy
      simp only [Int.mul_zero, Int.add_zero] at hvq hcq
      rcases hVv' with e | e
      · subst e
        by_cases hside : dx = σ
        · subst hside
          -- the next square of the ray is the rook's destination
          have hcr' : c = r' := Sq.ext_xy _ _ (by
            rcases g.hσ with rfl | rfl <;> simp at hvq hcq <;> omega) (by omega)
          subst hcr'
          rcases Nat.lt_or_ge (j + 1) n with h | h
          · have := hseg.inner_zero (j + 1) c (by omega) h hc
            rw [hb'r'] at this; exact rook_ne_zero w this
          · have : j + 1 = n := by omega
            rw [this, hseg.step] at hc
            exact hFs (Or.inr (Option.some.inj hc))
        · apply hoff
          refine ⟨by omega, ?_⟩
          rcases g.hσ with rfl | rfl <;> rcases dir_cases a1 a2 with rfl | rfl | rfl <;> simp at hvq hside a5 ⊢ <;> omega
      · subst e
        rcases g.hσ with rfl | rfl <;> rcases dir_cases a1 a2 with rfl | rfl | rfl <;> simp at hvq hcq hrx a5 <;> omega
  · have hrook : ∀ (dx dy : Int) (n : Nat), RookD dx dy → Seg b' r' dx dy n K →
        ∃ q, (fun q => q = t ∨ q = r') q ∧ atkFrom b'[q] (occBB b') q K = true := by
      intro dx dy n hrd hs
      refine ⟨r', Or.inr rfl, ?_⟩
      rw [hb'r']
      exact atkFrom_of_slider _ _ _ _ (-dx) (-dy) (Or.inl ⟨rookD_neg hrd, Or.inl hkr⟩)
        ((tst_ray_seg b' hv' K r' _ _ (rookD_neg hrd).isDir).2 ⟨n, hs.rev⟩)
    rintro (⟨n, hs⟩ | ⟨n, hs⟩)
    · left
      have hτ' : τ = 1 ∨ τ = -1 := by rcases g.hσ with h | h <;> omega
      have hrd : RookD τ 0 := by unfold RookD; omega
      have hst := (stepSq_eq_some _ _ _ _ _ _).1 hs.step
      have s0 : stepSq r'.x r'.y τ 0 1 = some f := by
        rw [stepSq_eq_some]; simp; omega
      have s1 : Seg b' f τ 0 n K := hch.seg_after hs (fun l c h1 h2 hc hF => by
        have hF' : c = t ∨ c = r' := hF
        have hcq := (stepSq_eq_some _ _ _ _ _ _).1 hc
        rcases hF' with e | e <;> rw [e] at hcq <;> rcases g.hσ with h | h <;> subst h <;> subst hτ <;>
          simp at hcq htx hr'x <;> omega)
      have s2 := (seg_one b' r' f τ 0 s0).join (hch.vac f (Or.inl rfl)) s1
      exact hrook τ 0 _ hrd s2
    · left
      have hrd : RookD 0 (if w then 1 else -1) := by unfold RookD; cases w <;> simp
      have s1 : Seg b' r' 0 (if w then 1 else -1) n K := hch.seg_after hs (fun l c h1 h2 hc hF => by
        have hF' : c = t ∨ c = r' := hF
        have hcq := (stepSq_eq_some _ _ _ _ _ _).1 hc
        have hcy : c.y = f.y := by rcases hF' with e | e <;> rw [e] <;> omega
        cases w <;> simp at hcq <;> omega)
      exact hrook 0 _ n hrd s1

/-- the second block does not fire for a castling move -/
theorem no_disc (g : CastleGeo b b' w f t r r' σ) (K : Sq) (hK : KingAt b (!w) K) : gcDisc b w K f t = false := by
  apply Bool.eq_false_iff.2
  intro h
  obtain ⟨ex, ey, n, i, s, he, hs1, hne, hs2, _⟩ := (gcDisc_iff b w K hK f t).1 h
  obtain ⟨hoff, _⟩ := g.king_off K hK
  have hfx := g.fx; have hfy := g.fy; have hty := g.ty; have htx := g.tx
  have h1 := (stepSq_eq_some _ _ _ _ _ _).1 hs1.step
  have h2 := (stepSq_eq_some _ _ _ _ _ _).1 hs2.step
  have hn := hs1.pos; have hi := hs2.pos
  have hxK := Sq.x_lt K; have hyK := Sq.y_lt K; have hxs := Sq.x_lt s; have hys := Sq.y_lt s
  obtain ⟨a1, a2, a3, a4, a5⟩ := he
  have hey : ey = 0 := by
    cases w <;> simp at hfy <;> rcases dir_cases a3 a4 with rfl | rfl | rfl <;>
      simp only [Int.mul_neg, Int.mul_one, Int.mul_zero, Int.neg_neg] at h1 h2 <;> omega
  subst hey
  simp only [Int.mul_zero, Int.add_zero] at h1
  by_cases hside : ex = σ
  · subst hside
    apply hoff
    refine ⟨by omega, ?_⟩
    rcases g.hσ with rfl | rfl <;> simp at h1 ⊢ <;> omega
  · apply hne
    have hex : ex = -σ := by rcases g.hσ with rfl | rfl <;> omega
    have hd : IsDir ex 0 := ⟨a1, a2, a3, a4, a5⟩
    refine (direction_iff t K ex 0 hd).2 ⟨n + 2, by omega, ?_⟩
    rw [stepSq_eq_some]
    have : ((n + 2 : Nat) : Int) = (n : Int) + 2 := by omega
    rw [this]
    rcases g.hσ with rfl | rfl <;> subst hex <;> simp at h1 htx ⊢ <;> omega

end CastleGeo

/-! ## instances -/

theorem sqOff_xy (f : Sq) (d : Int) (hb : 0 ≤ (f.x : Int) + d ∧ (f.x : Int) + d < 8) :
    ((sqOff f d).x : Int) = f.x + d ∧ (sqOff f d).y = f.y ∧ ((sqOff f d).val : Int) = f.val + d := by
  have hv := Sq.val_eq f
  have hx := Sq.x_lt f; have hy := Sq.y_lt f
  have h := sqOff_val f d (by omega)
  unfold Sq.x Sq.y at *
  omega

theorem castle_geo_short (p : Pos) (m : Mv) (hp : pseudo p m = true) (hk : kind p.b[m.f] = 1)
    (ht : m.t.val = m.f.val + 2) :
    CastleGeo p.b (apply p m).b p.wtm m.f m.t (sqOff m.f 3) (sqOff m.f 1) 1 ∧ m.promo = 0 := by
  obtain ⟨hpr, hcase⟩ := PosImpl.pseudo_king p m hp (by rw [getP_sq]; exact hk)
  have hhc : m.f.val = (if p.wtm then 4 else 60) ∧ castleOk p true = true := by
    rcases hcase with h | h | h
    · omega
    · exact ⟨h.2.1, h.2.2⟩
    · omega
  obtain ⟨hhome, hco⟩ := hhc
  obtain ⟨e1, e2, e3⟩ := PosImpl.castleOk_short p hco
  rw [← hhome] at e1 e2 e3
  have hb := apply_b_short p m hk hpr ht
  have hf4 : m.f.val = 4 ∨ m.f.val = 60 := by cases hw : p.wtm <;> simp [hw] at hhome <;> omega
  have hfx : (m.f.x : Int) = 4 := by unfold Sq.x; omega
  obtain ⟨r1x, r1y, r1v⟩ := sqOff_xy m.f 1 (by omega)
  obtain ⟨r3x, r3y, r3v⟩ := sqOff_xy m.f 3 (by omega)
  have hbf : p.b[m.f] = (if p.wtm then WKING else BKING) := king_of_kind _ _ (pseudo_own_f p m hp) hk
  have htt := m.t.isLt
  refine ⟨⟨Or.inl rfl, hfx, ?_, ?_, r3y, r1y, by omega, ?_, by simp; omega, hbf, ?_, ?_, ?_⟩, hpr⟩
  · unfold Sq.y; cases hw : p.wtm <;> simp [hw] at hhome ⊢ <;> omega
  · unfold Sq.y; omega
  · unfold Sq.x; omega
  · rw [← getP_val p.b (sqOff m.f 3) (m.f.val + 3) (by omega), e3]
  · intro q hy hx hq
    have hqv := Sq.val_eq q; have hfv := Sq.val_eq m.f
    have hqx := Sq.x_lt q
    have hq3 : q.val ≠ m.f.val + 3 := fun e => hq (Fin.ext (by omega))
    have : q.val = m.f.val + 1 ∨ q.val = m.f.val + 2 := by omega
    rcases this with h | h
    · rw [← getP_val p.b q _ h, e1]
    · rw [← getP_val p.b q _ h, e2]
  · intro q
    rw [hb q]
    have c1 : (m.f.val + 1 = q.val) ↔ q = sqOff m.f 1 := by rw [Fin.ext_iff]; omega
    have c2 : (m.f.val + 3 = q.val) ↔ q = sqOff m.f 3 := by rw [Fin.ext_iff]; omega
    have c3 : (m.t.val = q.val) ↔ q = m.t := by rw [Fin.ext_iff]; omega
    have c4 : (m.f.val = q.val) ↔ q = m.f := by rw [Fin.ext_iff]; omega
    simp only [c1, c2, c3, c4, hbf]

theorem castle_geo_long (p : Pos) (m : Mv) (hp : pseudo p m = true) (hk : kind p.b[m.f] = 1)
    (ht : m.t.val + 2 = m.f.val) :
    CastleGeo p.b (apply p m).b p.wtm m.f m.t (sqOff m.f (-4)) (sqOff m.f (-1)) (-1) ∧ m.promo = 0 := by
  obtain ⟨hpr, hcase⟩ := PosImpl.pseudo_king p m hp (by rw [getP_sq]; exact hk)
  have hhc : m.f.val = (if p.wtm then 4 else 60) ∧ castleOk p false = true := by
    rcases hcase with h | h | h
    · omega
    · omega
    · exact ⟨h.2.1, h.2.2⟩
  obtain ⟨hhome, hco⟩ := hhc
  obtain ⟨e1, e2, e3, e4⟩ := PosImpl.castleOk_long p hco
  rw [← hhome] at e1 e2 e3 e4
  have hb := apply_b_long p m hk hpr ht
  have hf4 : m.f.val = 4 ∨ m.f.val = 60 := by cases hw : p.wtm <;> simp [hw] at hhome <;> omega
  have hfx : (m.f.x : Int) = 4 := by unfold Sq.x; omega
  obtain ⟨r1x, r1y, r1v⟩ := sqOff_xy m.f (-1) (by omega)
  obtain ⟨r4x, r4y, r4v⟩ := sqOff_xy m.f (-4) (by omega)
  have hbf : p.b[m.f] = (if p.wtm then WKING else BKING) := king_of_kind _ _ (pseudo_own_f p m hp) hk
  have htt := m.t.isLt
  refine ⟨⟨Or.inr rfl, hfx, ?_, ?_, r4y, r1y, by omega, ?_, by simp; omega, hbf, ?_, ?_, ?_⟩, hpr⟩
  · unfold Sq.y; cases hw : p.wtm <;> simp [hw] at hhome ⊢ <;> omega
  · unfold Sq.y; omega
  · unfold Sq.x; omega
  · rw [← getP_val p.b (sqOff m.f (-4)) (m.f.val - 4) (by omega), e4]
  · intro q hy hx hq
    have hqv := Sq.val_eq q; have hfv := Sq.val_eq m.f
    have hqx := Sq.x_lt q
    have hq4 : q.val ≠ m.f.val - 4 := fun e => hq (Fin.ext (by omega))
    have : q.val = m.f.val - 1 ∨ q.val = m.f.val - 2 ∨ q.val = m.f.val - 3 := by omega
    rcases this with h | h | h
    · rw [← getP_val p.b q _ h, e1]
    · rw [← getP_val p.b q _ h, e2]
    · rw [← getP_val p.b q _ h, e3]
  · intro q
    rw [hb q]
    have c1 : (m.f.val - 1 = q.val) ↔ q = sqOff m.f (-1) := by rw [Fin.ext_iff]; omega
    have c2 : (m.f.val - 4 = q.val) ↔ q = sqOff m.f (-4) := by rw [Fin.ext_iff]; omega
    have c3 : (m.t.val = q.val) ↔ q = m.t := by rw [Fin.ext_iff]; omega
    have c4 : (m.f.val = q.val) ↔ q = m.f := by rw [Fin.ext_iff]; omega
    simp only [c1, c2, c3, c4, hbf]

/-! ## castling -/

theorem gives_castle (p : Pos) (K : Sq) (H : GcWF p K) (m : Mv) (hp : pseudo p m = true) (hk : kind p.b[m.f] = 1)
    (hkk : kingGeom K m.t = false) (hC : m.t.val = m.f.val + 2 ∨ m.t.val + 2 = m.f.val) :
    sqAttacked (apply p m).b (!p.wtm) K (occBB (apply p m).b) = true ↔ givesCheck p K m = true := by
  have hv := H.valid
  have hK := H.oking
  have hv' := validB_apply p hv m hp
  have hpr : m.promo = 0 := PosImpl.pseudo_other p m hp (by rw [getP_sq, hk]; decide)
  have hmk : movedKind p m = 1 := by
    unfold movedKind; rw [hpr]; simp only [beq_self_eq_true, if_true]; exact hk
  have hdirect : gcDirect p.b p.wtm K 1 m.t = false := by
    apply Bool.eq_false_iff.2
    intro h
    rcases (gcDirect_iff _ _ _ hK _ _).1 h with ⟨h, _⟩ | ⟨h, _⟩ | ⟨h, _⟩ | ⟨h, _⟩
    · rcases h with h | h <;> exact absurd h (by decide)
    · rcases h with h | h <;> exact absurd h (by decide)
    · exact absurd h (by decide)
    · exact absurd h (by decide)
  have hpromo : gcPromo p.b p.wtm K 1 m.promo m.f m.t = false := by
    apply Bool.eq_false_iff.2
    intro h
    exact ((gcPromo_iff _ _ _ hK _ _ _ _).1 h).1 hpr
  rw [givesCheck_split, hmk, hdirect, hpromo]
  simp only [Bool.false_or, Bool.or_false, beq_self_eq_true, if_true]
  rcases hC with ht | ht
  · obtain ⟨g, _⟩ := castle_geo_short p m hp hk ht
    rw [g.no_disc K hK, Bool.false_or, gcCastle_short _ _ _ hK _ _ ht]
    exact g.attacked_iff hv hv' K hK H.notAttacked hkk (-1) rfl
  · obtain ⟨g, _⟩ := castle_geo_long p m hp hk ht
    rw [g.no_disc K hK, Bool.false_or, gcCastle_long _ _ _ hK _ _ ht]
    exact g.attacked_iff hv hv' K hK H.notAttacked hkk 1 rfl

/-! ## all moves -/

/-- the opponent's king stays where it is -/
theorem oking_after (p : Pos) (K : Sq) (H : GcWF p K) (m : Mv) (hp : pseudo p m = true) :
    KingAt (apply p m).b (!p.wtm) K := by
  have hK := H.oking
  have hKt : K ≠ m.t := fun e => not_capture_king p K H m hp e.symm
  have hKf : K ≠ m.f := by
    intro e
    subst e
    have := pseudo_own_f p m hp
    rw [hK.1, own_oking] at this; cases this
  by_cases hE : PosImpl.isEpS p m = true
  · obtain ⟨c, g⟩ := ep_geo p m hp H.ep hE
    obtain ⟨hch, _⟩ := change_ep p m c hp hE g
    refine hch.kingAt_after K hK (fun h => ?_) (fun h => hKt h)
    have h' : K = m.f ∨ K = c := h
    rcases h' with e | e
    · exact hKf e
    · have := hK.1; rw [e, g.pc_c] at this
      cases hw : p.wtm <;> rw [hw] at this <;> exact absurd this (by decide)
  · have hE' : PosImpl.isEpS p m = false := by simpa using hE
    by_cases hC : kind p.b[m.f] = 1 ∧ (m.t.val = m.f.val + 2 ∨ m.t.val + 2 = m.f.val)
    · obtain ⟨hk, hC⟩ := hC
      have key : ∀ (r r' : Sq) (σ : Int), CastleGeo p.b (apply p m).b p.wtm m.f m.t r r' σ →
          KingAt (apply p m).b (!p.wtm) K := by
        intro r r' σ g
        obtain ⟨n1, n2, n3⟩ := oking_ne p.wtm
        obtain ⟨hoff, _⟩ := g.king_off K hK
        refine g.change.kingAt_after K hK (fun h => ?_) (fun h => ?_)
        · have h' : K = m.f ∨ K = r := h
          rcases h' with e | e
          · exact hKf e
          · have := hK.1; rw [e, g.br] at this; exact n2 this.symm
        · have h' : K = m.t ∨ K = r' := h
          apply hoff
          have h1 := g.ty; have h2 := g.r'y; have h3 := g.tx; have h4 := g.r'x
          rcases h' with e | e <;> rw [e] <;> refine ⟨by omega, ?_⟩ <;> rcases g.hσ with rfl | rfl <;> simp at h3 h4 ⊢ <;> omega
      rcases hC with ht | ht
      · exact key _ _ _ (castle_geo_short p m hp hk ht).1
      · exact key _ _ _ (castle_geo_long p m hp hk ht).1
    · obtain ⟨hch, _⟩ := change_simple p m hp hE' hC
      exact hch.kingAt_after K hK (fun h => hKf h) (fun h => hKt h)

/-- **`MoveGen::givesCheck` is right.**  Position: piece codes 0..12, the opponent has exactly one king, which is not
    attacked, the en-passant square is sane (`GcWF`).  Move: pseudo-legal, and if it is a king move the king does not
    step next to the opponent's king.  Then `givesCheck` returns whether the opponent is in check after the move —
    direct checks, discovered checks, promotions (the new piece looking through the vacated from-square), en passant (both
    vacated squares) and castling (the rook) included. -/
theorem givesCheck_eq (p : Pos) (ok : Sq) (H : GcWF p ok) (m : Mv) (hp : pseudo p m = true)
    (hkk : kind p.b[m.f] = 1 → kingGeom ok m.t = false) :
    givesCheck p ok m = givesCheckSpec p m := by
  unfold givesCheckSpec
  have hv' := validB_apply p H.valid m hp
  rw [inCheck_of_kingAt _ hv' _ ok (oking_after p ok H m hp), Bool.eq_iff_iff]
  symm
  by_cases hE : PosImpl.isEpS p m = true
  · exact gives_ep p ok H m hp hE
  · have hE' : PosImpl.isEpS p m = false := by simpa using hE
    by_cases hC : kind p.b[m.f] = 1 ∧ (m.t.val = m.f.val + 2 ∨ m.t.val + 2 = m.f.val)
    · exact gives_castle p ok H m hp hC.1 (hkk hC.1) hC.2
    · exact gives_simple p ok H m hp hkk hE' hC

/-! ## legal moves -/

theorem Change.own_kingAt_after {b b' : Board} {w : Bool} {V F : Sq → Prop} (h : Change b b' w V F) (k t : Sq)
    (hk : KingAt b w k) (hVk : V k) (ht : b'[t] = (if w then WKING else BKING))
    (hF : ∀ q, F q → q = t ∨ b'[q] ≠ (if w then WKING else BKING)) : KingAt b' w t := by
  refine ⟨ht, ?_⟩
  intro s hs
  by_cases hV : V s
  · rw [h.vac s hV] at hs; exact absurd hs (zero_ne_king w)
  · by_cases hFs : F s
    · rcases hF s hFs with e | e
      · exact e
      · exact absurd hs e
    · rw [h.other s hV hFs] at hs
      have := hk.2 s hs
      subst this; exact absurd hVk hV

/-- where the mover's king stands after a king move -/
theorem own_king_after (p : Pos) (k : Sq) (hk : KingAt p.b p.wtm k) (m : Mv) (hp : pseudo p m = true)
    (hk1 : kind p.b[m.f] = 1) : KingAt (apply p m).b p.wtm m.t := by
  have hfk : m.f = k := hk.2 _ (king_of_kind _ _ (pseudo_own_f p m hp) hk1)
  subst hfk
  have hE : PosImpl.isEpS p m = false := by unfold PosImpl.isEpS; rw [getP_sq, hk1]; rfl
  by_cases hC : kind p.b[m.f] = 1 ∧ (m.t.val = m.f.val + 2 ∨ m.t.val + 2 = m.f.val)
  · have key : ∀ (r r' : Sq) (σ : Int), CastleGeo p.b (apply p m).b p.wtm m.f m.t r r' σ →
        KingAt (apply p m).b p.wtm m.t := by
      intro r r' σ g
      obtain ⟨d1, d2, d3, d4, d5, d6⟩ := g.distinct
      refine g.change.own_kingAt_after m.f m.t hk (Or.inl rfl) (by rw [g.after m.t, if_neg d5, if_neg d4, if_pos rfl]) ?_
      intro q hq
      have hq' : q = m.t ∨ q = r' := hq
      rcases hq' with e | e
      · exact Or.inl e
      · right; rw [e, g.after r', if_pos rfl]; exact rook_ne_king p.wtm
    rcases hC.2 with ht | ht
    · exact key _ _ _ (castle_geo_short p m hp hk1 ht).1
    · exact key _ _ _ (castle_geo_long p m hp hk1 ht).1
  · obtain ⟨hch, ht⟩ := change_simple p m hp hE hC
    have hpr : m.promo = 0 := PosImpl.pseudo_other p m hp (by rw [getP_sq, hk1]; decide)
    refine hch.own_kingAt_after m.f m.t hk rfl ?_ (fun q hq => Or.inl hq)
    rw [ht]; unfold newPc; rw [hpr]; simp only [bne_self_eq_false, Bool.false_eq_true, if_false]; exact hk.1

/-- a legal king move does not end next to the opponent's king -/
theorem legal_king_apart (p : Pos) (k ok : Sq) (h1 : GenWF p k) (H : GcWF p ok) (m : Mv) (hl : legalB p m = true)
    (hk1 : kind p.b[m.f] = 1) : kingGeom ok m.t = false := by
  unfold legalB at hl
  simp only [Bool.and_eq_true, Bool.not_eq_true'] at hl
  obtain ⟨hp, hsafe⟩ := hl
  have hv' := validB_apply p H.valid m hp
  have hk' := own_king_after p k h1.king m hp hk1
  have hK' := oking_after p ok H m hp
  rw [inCheck_of_kingAt _ hv' _ m.t hk'] at hsafe
  apply Bool.eq_false_iff.2
  intro hg
  have : sqAttacked (apply p m).b p.wtm m.t (occBB (apply p m).b) = true := by
    rw [sqAttacked_iff]
    refine ⟨ok, by rw [hK'.1]; exact own_king (!p.wtm), ?_⟩
    rw [atkFrom_king _ _ _ _ (by rw [hK'.1]; exact kind_king (!p.wtm)), kingGeom_swap]; exact hg
  rw [this] at hsafe; cases hsafe

/-- **`givesCheck` on legal moves**: for every legal move of a well-formed position, `MoveGen::givesCheck` says whether the
    opponent is in check after the move -/
theorem givesCheck_legal (p : Pos) (k ok : Sq) (h1 : GenWF p k) (H : GcWF p ok) (m : Mv) (hl : legalB p m = true) :
    givesCheck p ok m = givesCheckSpec p m := by
  have hp : pseudo p m = true := by unfold legalB at hl; simp only [Bool.and_eq_true] at hl; exact hl.1
  exact givesCheck_eq p ok H m hp (legal_king_apart p k ok h1 H m hl)

/-! ## the Boolean form of the hypotheses -/

theorem gcWF_of_b (p : Pos) (ok : Sq) (h : gcWFb p ok = true) : GcWF p ok := by
  unfold gcWFb at h
  simp only [Bool.and_eq_true, List.all_eq_true, allSq, List.mem_finRange, true_imp_iff, decide_eq_true_eq, beq_iff_eq,
    Bool.or_eq_true, Bool.not_eq_true', beq_eq_false_iff_ne] at h
  obtain ⟨⟨⟨⟨hv, hk1⟩, hk2⟩, hs⟩, hep⟩ := h
  have e : (if p.wtm = false then WKING else BKING) = (if (!p.wtm) = true then WKING else BKING) := by cases p.wtm <;> rfl
  rw [e] at hk1
  simp only [e] at hk2
  refine ⟨hv, ⟨hk1, ?_⟩, hs, ?_⟩
  · intro s hs'
    rcases hk2 s with h | h
    · exact absurd hs' h
    · exact h
  · constructor
    · intro e he
      rw [he] at hep
      simp only [Bool.and_eq_true, beq_iff_eq] at hep
      exact ⟨hep.1.1, hep.1.2⟩
    · intro e he
      rw [he] at hep
      simp only [Bool.and_eq_true, beq_iff_eq] at hep
      exact hep.2

end Chess.Texel
