import TexelVerif.Chess.TexelGenCC2
/-!
`mem_cc_iff`: `m ∈ pseudoLegalCapturesAndChecks p k ok ↔ pseudo p m ∧ CCGen p ok m` — the list is exactly the set of
pseudo-legal moves described by `CCGen` (sound: nothing but pseudo-legal moves; precise: the masks of the C++).
`cc_complete`: the list contains every pseudo-legal capture (incl. en passant), every promotion to queen or knight, and
every move (promotions: to queen or knight) that gives check — direct, discovered, by castling or en passant.
-/
namespace Chess.Texel
open PosImpl (BB getP getP_eq)

/-- what `pseudoLegalCapturesAndChecks` generates among the pseudo-legal moves (`D` = `discovered`) -/
def CCGen (p : Pos) (ok : Sq) (m : Mv) : Prop :=
  let b := p.b
  let w := p.wtm
  let D := ccDiscovered b w ok
  let occ := occBB b
  let cap := own (!w) b[m.t] = true
  (kind b[m.f] = 2 ∧ (tst D m.f = true ∨ cap ∨ tst (rookAttacks ok occ) m.t = true ∨ tst (bishopAttacks ok occ) m.t = true)) ∨
  (kind b[m.f] = 3 ∧ (tst D m.f = true ∨ cap ∨ tst (rookAttacks ok occ) m.t = true)) ∨
  (kind b[m.f] = 4 ∧ (tst D m.f = true ∨ cap ∨ tst (bishopAttacks ok occ) m.t = true)) ∨
  (kind b[m.f] = 5 ∧ (tst D m.f = true ∨ cap ∨ tst (knightAttacks ok) m.t = true)) ∨
  (kind b[m.f] = 1 ∧ (tst D m.f = true ∨ cap ∨ m.t.val = m.f.val + 2 ∨ m.t.val + 2 = m.f.val)) ∨
  (kind b[m.f] = 6 ∧ qnPromo m = true ∧
     (m.f.x ≠ m.t.x ∨ tst (D ||| (if w then maskRow7 else maskRow2)) m.f = true ∨
      tst (if w then bPawnAttacks ok else wPawnAttacks ok) m.t = true))

/-! ## sections against the sections of `pseudoLegalMoves` -/

theorem sectionCC_iff (p : Pos) (k : Fin 7) (hk2 : 2 ≤ k.val) (hk5 : k.val ≤ 5) (att : Sq → BB)
    (hatt : ∀ f t, kind p.b[f] = UInt8.ofNat k.val → attacks p.b f t = tst (att f) t) (D R : BB) (m : Mv) :
    m ∈ pieceMovesCC p.b p.wtm (UInt8.ofNat k.val) att D R ↔
      (pseudo p m = true ∧ kind p.b[m.f] = UInt8.ofNat k.val ∧ (tst D m.f = true ∨ tst R m.t = true)) := by
  rw [mem_pieceMovesCC]
  have hs := section_iff p k hk2 hk5 att hatt m
  rw [mem_pieceMoves] at hs
  simp only [tst_not, tst_colorBB, Bool.not_eq_true'] at hs
  constructor
  · rintro ⟨h1, h2, h3, h4, h5⟩; obtain ⟨a, b⟩ := hs.1 ⟨h1, h2, h3, h4⟩; exact ⟨a, b, h5⟩
  · rintro ⟨a, b, h5⟩; obtain ⟨h1, h2, h3, h4⟩ := hs.2 ⟨a, b⟩; exact ⟨h1, h2, h3, h4, h5⟩

theorem knightCC_iff (p : Pos) (ok : Sq) (D : BB) (m : Mv) :
    m ∈ ccKnightMoves p.b p.wtm ok D ↔
      (pseudo p m = true ∧ kind p.b[m.f] = 5 ∧
        (tst D m.f = true ∨ own (!p.wtm) p.b[m.t] = true ∨ tst (knightAttacks ok) m.t = true)) := by
  rw [mem_ccKnight]
  have hs : m ∈ pieceMoves p.b p.wtm 5 knightAttacks (fun _ => ~~~colorBB p.b p.wtm) ↔
      (pseudo p m = true ∧ kind p.b[m.f] = 5) :=
    section_iff p ⟨5, by decide⟩ (by decide) (by decide) _ (fun f t hk => attacks_knight p.b f t hk) m
  rw [mem_pieceMoves] at hs
  simp only [tst_not, tst_colorBB, Bool.not_eq_true'] at hs
  simp only [tst_or, tst_colorBB, Bool.or_eq_true]
  constructor
  · rintro ⟨h1, h2, h3, h4, h5⟩; obtain ⟨a, b⟩ := hs.1 ⟨h1, h2, h3, h4⟩; exact ⟨a, b, h5⟩
  · rintro ⟨a, b, h5⟩; obtain ⟨h1, h2, h3, h4⟩ := hs.2 ⟨a, b⟩; exact ⟨h1, h2, h3, h4, h5⟩

theorem castle_shape (p : Pos) (k : Sq) (hv : ValidB p.b) (hk : KingAt p.b p.wtm k) (m : Mv) (h : m ∈ castleMoves p k) :
    m.t.val = m.f.val + 2 ∨ m.t.val + 2 = m.f.val := by
  cases hw : p.wtm
  · rw [hw] at hk
    obtain ⟨_, _, h⟩ := (mem_castle_black p hw k hv hk m).1 h
    rcases h with ⟨a, b, _⟩ | ⟨a, b, _⟩ <;> rw [a, b] <;> decide
  · rw [hw] at hk
    obtain ⟨_, _, h⟩ := (mem_castle_white p hw k hv hk m).1 h
    rcases h with ⟨a, b, _⟩ | ⟨a, b, _⟩ <;> rw [a, b] <;> decide

theorem kingStep_not_castle (f t : Sq) (h : kingGeom f t = true) : ¬ (t.val = f.val + 2 ∨ t.val + 2 = f.val) := by
  obtain ⟨⟨a, b⟩, _⟩ := (kingGeom_iff' f t).1 h
  unfold dxy at a b
  simp only at a b
  have := Sq.val_eq f; have := Sq.val_eq t; have := Sq.x_lt f; have := Sq.x_lt t
  omega

theorem kingCC_iff (p : Pos) (k : Sq) (D : BB) (hv : ValidB p.b) (hk : KingAt p.b p.wtm k) (m : Mv) :
    (m ∈ addMovesByMask k (kingAttacks k &&& (if (D &&& sqBit k) == 0 then colorBB p.b (!p.wtm) else ~~~colorBB p.b p.wtm)) ∨
      m ∈ castleMoves p k) ↔
      (pseudo p m = true ∧ kind p.b[m.f] = 1 ∧
        (tst D m.f = true ∨ own (!p.wtm) p.b[m.t] = true ∨ m.t.val = m.f.val + 2 ∨ m.t.val + 2 = m.f.val)) := by
  have hs := king_section_iff p k hv hk m
  have hstep : m ∈ addMovesByMask k (kingAttacks k &&& (if (D &&& sqBit k) == 0 then colorBB p.b (!p.wtm) else ~~~colorBB p.b p.wtm)) ↔
      (m ∈ addMovesByMask k (kingAttacks k &&& ~~~colorBB p.b p.wtm) ∧ (tst D m.f = true ∨ own (!p.wtm) p.b[m.t] = true)) := by
    rw [mem_addMovesByMask, mem_addMovesByMask, and_sqBit_eq_zero]
    cases hD : tst D k
    · simp only [Bool.not_false, if_true, tst_and, tst_not, tst_colorBB, Bool.and_eq_true, Bool.not_eq_true']
      constructor
      · rintro ⟨a, b, c, d⟩
        have := own_excl (!p.wtm) _ d
        rw [Bool.not_not] at this
        exact ⟨⟨a, b, c, this⟩, Or.inr d⟩
      · rintro ⟨⟨a, b, c, _⟩, d⟩
        rcases d with d | d
        · rw [a, hD] at d; cases d
        · exact ⟨a, b, c, d⟩
    · simp only [Bool.not_true, Bool.false_eq_true, if_false]
      constructor
      · rintro ⟨a, b, c⟩; exact ⟨⟨a, b, c⟩, Or.inl (by rw [a]; exact hD)⟩
      · rintro ⟨h, _⟩; exact h
  rw [hstep]
  constructor
  · rintro (⟨h, c⟩ | h)
    · obtain ⟨a, b⟩ := hs.1 (Or.inl h)
      rcases c with c | c
      · exact ⟨a, b, Or.inl c⟩
      · exact ⟨a, b, Or.inr (Or.inl c)⟩
    · obtain ⟨a, b⟩ := hs.1 (Or.inr h)
      exact ⟨a, b, Or.inr (Or.inr (castle_shape p k hv hk m h))⟩
  · rintro ⟨a, b, c⟩
    rcases hs.2 ⟨a, b⟩ with h | h
    · rcases c with c | c | c
      · exact Or.inl ⟨h, Or.inl c⟩
      · exact Or.inl ⟨h, Or.inr c⟩
      · exfalso
        obtain ⟨e, _, g, _⟩ := (mem_kingStep p.b p.wtm k m).1 h
        rw [← e] at g
        exact kingStep_not_castle m.f m.t g c
    · exact Or.inr h

theorem pawnCC_iff (p : Pos) (ok : Sq) (D : BB) (hv : ValidB p.b) (hep : EpEmpty p) (m : Mv) :
    m ∈ ccPawnMoves p ok D ↔
      (pseudo p m = true ∧ kind p.b[m.f] = 6 ∧ qnPromo m = true ∧
        (m.f.x ≠ m.t.x ∨ tst (D ||| (if p.wtm then maskRow7 else maskRow2)) m.f = true ∨
         tst (if p.wtm then bPawnAttacks ok else wPawnAttacks ok) m.t = true)) := by
  have hs := pawn_section_iff p hv hep m
  cases hw : p.wtm
  · rw [mem_ccPawn_black p ok D hw, hs]
    simp only [Bool.false_eq_true, if_false]
    constructor
    · rintro ⟨⟨a, b⟩, c, d⟩; exact ⟨a, b, c, d⟩
    · rintro ⟨a, b, c, d⟩; exact ⟨⟨a, b⟩, c, d⟩
  · rw [mem_ccPawn_white p ok D hw, hs]
    simp only [if_true]
    constructor
    · rintro ⟨⟨a, b⟩, c, d⟩; exact ⟨a, b, c, d⟩
    · rintro ⟨a, b, c, d⟩; exact ⟨⟨a, b⟩, c, d⟩

/-! ## the list -/

/-- **`MoveGen::pseudoLegalCapturesAndChecks` generates exactly the pseudo-legal moves described by `CCGen`** -/
theorem mem_cc_iff (p : Pos) (k ok : Sq) (h : GenWF p k) (m : Mv) :
    m ∈ pseudoLegalCapturesAndChecks p k ok ↔ (pseudo p m = true ∧ CCGen p ok m) := by
  obtain ⟨hv, hk, hep⟩ := h
  rw [cc_unfold]
  simp only [List.mem_append]
  have sQ : m ∈ pieceMovesCC p.b p.wtm 2 (fun sq => rookAttacks sq (occBB p.b) ||| bishopAttacks sq (occBB p.b))
      (ccDiscovered p.b p.wtm ok) (colorBB p.b (!p.wtm) ||| rookAttacks ok (occBB p.b) ||| bishopAttacks ok (occBB p.b)) ↔ _ :=
    sectionCC_iff p ⟨2, by decide⟩ (by decide) (by decide) _ (fun f t hk => attacks_queen p.b hv f t hk) _ _ m
  have sR : m ∈ pieceMovesCC p.b p.wtm 3 (fun sq => rookAttacks sq (occBB p.b))
      (ccDiscovered p.b p.wtm ok) (colorBB p.b (!p.wtm) ||| rookAttacks ok (occBB p.b)) ↔ _ :=
    sectionCC_iff p ⟨3, by decide⟩ (by decide) (by decide) _ (fun f t hk => attacks_rook p.b hv f t hk) _ _ m
  have sB : m ∈ pieceMovesCC p.b p.wtm 4 (fun sq => bishopAttacks sq (occBB p.b))
      (ccDiscovered p.b p.wtm ok) (colorBB p.b (!p.wtm) ||| bishopAttacks ok (occBB p.b)) ↔ _ :=
    sectionCC_iff p ⟨4, by decide⟩ (by decide) (by decide) _ (fun f t hk => attacks_bishop p.b hv f t hk) _ _ m
  have sN := knightCC_iff p ok (ccDiscovered p.b p.wtm ok) m
  have sK := kingCC_iff p k (ccDiscovered p.b p.wtm ok) hv hk m
  have sP := pawnCC_iff p ok (ccDiscovered p.b p.wtm ok) hv hep m
  simp only [tst_or, tst_colorBB, Bool.or_eq_true] at sQ sR sB
  unfold CCGen
  simp only
  constructor
  · rintro ((((((h | h) | h) | h) | h) | h) | h)
    · obtain ⟨a, b, c⟩ := sQ.1 h
      refine ⟨a, Or.inl ⟨b, ?_⟩⟩
      rcases c with c | (c | c) | c
      · exact Or.inl c
      · exact Or.inr (Or.inl c)
      · exact Or.inr (Or.inr (Or.inl c))
      · exact Or.inr (Or.inr (Or.inr c))
    · obtain ⟨a, b, c⟩ := sR.1 h
      refine ⟨a, Or.inr (Or.inl ⟨b, ?_⟩)⟩
      rcases c with c | c | c
      · exact Or.inl c
      · exact Or.inr (Or.inl c)
      · exact Or.inr (Or.inr c)
    · obtain ⟨a, b, c⟩ := sB.1 h
      refine ⟨a, Or.inr (Or.inr (Or.inl ⟨b, ?_⟩))⟩
      rcases c with c | c | c
      · exact Or.inl c
      · exact Or.inr (Or.inl c)
      · exact Or.inr (Or.inr c)
    · obtain ⟨a, b, c⟩ := sK.1 (Or.inl h)
      exact ⟨a, Or.inr (Or.inr (Or.inr (Or.inr (Or.inl ⟨b, c⟩))))⟩
    · obtain ⟨a, b, c⟩ := sK.1 (Or.inr h)
      exact ⟨a, Or.inr (Or.inr (Or.inr (Or.inr (Or.inl ⟨b, c⟩))))⟩
    · obtain ⟨a, b, c⟩ := sN.1 h
      exact ⟨a, Or.inr (Or.inr (Or.inr (Or.inl ⟨b, c⟩)))⟩
    · obtain ⟨a, b, c⟩ := sP.1 h
      exact ⟨a, Or.inr (Or.inr (Or.inr (Or.inr (Or.inr ⟨b, c⟩))))⟩
  · rintro ⟨a, (⟨b, c⟩ | ⟨b, c⟩ | ⟨b, c⟩ | ⟨b, c⟩ | ⟨b, c⟩ | ⟨b, c⟩)⟩
    · refine Or.inl (Or.inl (Or.inl (Or.inl (Or.inl (Or.inl (sQ.2 ⟨a, b, ?_⟩))))))
      rcases c with c | c | c | c
      · exact Or.inl c
      · exact Or.inr (Or.inl (Or.inl c))
      · exact Or.inr (Or.inl (Or.inr c))
      · exact Or.inr (Or.inr c)
    · refine Or.inl (Or.inl (Or.inl (Or.inl (Or.inl (Or.inr (sR.2 ⟨a, b, ?_⟩))))))
      rcases c with c | c | c
      · exact Or.inl c
      · exact Or.inr (Or.inl c)
      · exact Or.inr (Or.inr c)
    · refine Or.inl (Or.inl (Or.inl (Or.inl (Or.inr (sB.2 ⟨a, b, ?_⟩)))))
      rcases c with c | c | c
      · exact Or.inl c
      · exact Or.inr (Or.inl c)
      · exact Or.inr (Or.inr c)
    · exact Or.inl (Or.inr (sN.2 ⟨a, b, c⟩))
    · rcases sK.2 ⟨a, b, c⟩ with h | h
      · exact Or.inl (Or.inl (Or.inl (Or.inr h)))
      · exact Or.inl (Or.inl (Or.inr h))
    · exact Or.inr (sP.2 ⟨a, b, c⟩)

/-- every move of the list is pseudo-legal -/
theorem cc_sound (p : Pos) (k ok : Sq) (h : GenWF p k) (m : Mv) (hm : m ∈ pseudoLegalCapturesAndChecks p k ok) :
    pseudo p m = true := ((mem_cc_iff p k ok h m).1 hm).1

/-! ## `discovered` contains every square from which a move uncovers a check -/

theorem reachN_join (emp : Sq → Bool) (a q c : Sq) (dx dy : Int) (j i : Nat) (h1 : ReachN emp a.x a.y dx dy j q)
    (hq : emp q = true) (h2 : ReachN emp q.x q.y dx dy i c) : ReachN emp a.x a.y dx dy (j + i) c := by
  refine ⟨by have := h1.1; omega, ?_, ?_⟩
  · rw [← stepSq_from a q dx dy j i h1.2.1]; exact h2.2.1
  · intro l hl1 hl2
    rcases Nat.lt_trichotomy l j with hlt | heq | hgt
    · exact h1.2.2 l hl1 hlt
    · subst heq; exact ⟨q, h1.2.1, hq⟩
    · have := h2.2.2 (l - j) (by omega) (by omega)
      rw [stepSq_from a q dx dy j (l - j) h1.2.1] at this
      have e : j + (l - j) = l := by omega
      rw [e] at this; exact this

/-- the x-ray test of `pseudoLegalCapturesAndChecks`: with the first blockers removed, the slider behind `f` is seen -/
theorem xray_seen (b : Board) (hv : ValidB b) (ok f s : Sq) (dx dy : Int) (hd : IsDir dx dy) (n i : Nat) (A : BB)
    (hA : tst A f = true) (h1 : Seg b ok dx dy n f) (h2 : Seg b f dx dy i s) :
    tst (ray (occBB b &&& ~~~A) ok dx dy) s = true := by
  rw [tst_ray_iff _ _ _ _ _ hd]
  have hemp : ∀ q, emp b q = true → (fun q => !tst (occBB b &&& ~~~A) q) q = true := by
    intro q hq
    have : b[q] = 0 := beq_iff_eq.1 hq
    simp only [tst_and, tst_occBB b hv, this]; rfl
  refine ⟨n + i, reachN_join _ ok f s dx dy n i (reachN_congr _ _ _ _ _ _ _ _ h1 (fun j q _ _ _ he => hemp q he)) ?_
    (reachN_congr _ _ _ _ _ _ _ _ h2 (fun j q _ _ _ he => hemp q he))⟩
  simp only [tst_and, tst_not, hA]; simp

theorem disc_mem (b : Board) (hv : ValidB b) (w : Bool) (ok : Sq) (hK : KingAt b (!w) ok) (f t : Sq)
    (h : gcDisc b w ok f t = true) : tst (ccDiscovered b w ok) f = true := by
  obtain ⟨ex, ey, n, i, s, he, hsK, _, hss, hbeh⟩ := (gcDisc_iff b w ok hK f t).1 h
  have hd := isDir_neg he
  unfold ccDiscovered
  simp only
  rcases hbeh with ⟨hrd, hb⟩ | ⟨hbd, hb⟩
  · have hf : tst (rookAttacks ok (occBB b)) f = true :=
      (tst_rook_iff ok f _).2 ⟨-ex, -ey, rookD_neg hrd, (tst_ray_seg b hv ok f _ _ hd).2 ⟨n, hsK.rev⟩⟩
    have hx : ((rookAttacks ok (occBB b &&& ~~~rookAttacks ok (occBB b)) &&& (pcBB b (pc w 2) ||| pcBB b (pc w 3))) != 0) = true := by
      rw [bb_ne_zero_iff]
      refine ⟨s, ?_⟩
      rw [tst_and, tst_or, tst_pcBB, tst_pcBB, Bool.and_eq_true]
      refine ⟨(tst_rook_iff ok s _).2 ⟨-ex, -ey, rookD_neg hrd, xray_seen b hv ok f s _ _ hd n i _ hf hsK.rev hss⟩, ?_⟩
      rcases hb with hb | hb <;> simp [hb]
    rw [if_pos hx]
    split
    · rw [tst_or, hf]; rfl
    · exact hf
  · have hf : tst (bishopAttacks ok (occBB b)) f = true :=
      (tst_bishop_iff ok f _).2 ⟨-ex, -ey, bishD_neg hbd, (tst_ray_seg b hv ok f _ _ hd).2 ⟨n, hsK.rev⟩⟩
    have hx : ((bishopAttacks ok (occBB b &&& ~~~bishopAttacks ok (occBB b)) &&& (pcBB b (pc w 2) ||| pcBB b (pc w 4))) != 0) = true := by
      rw [bb_ne_zero_iff]
      refine ⟨s, ?_⟩
      rw [tst_and, tst_or, tst_pcBB, tst_pcBB, Bool.and_eq_true]
      refine ⟨(tst_bishop_iff ok s _).2 ⟨-ex, -ey, bishD_neg hbd, xray_seen b hv ok f s _ _ hd n i _ hf hsK.rev hss⟩, ?_⟩
      rcases hb with hb | hb <;> simp [hb]
    rw [if_pos hx, tst_or, hf]; simp

end Chess.Texel
