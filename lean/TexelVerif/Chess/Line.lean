import TexelVerif.Chess.SpecLemmas
/-! Playing a sequence of moves under the specification (used to audit PVs, ponder moves, proof games). -/
namespace Chess

/-- play `ms` from `p`; `none` as soon as a move is not legal (positions are e.p.-normalised like the reader does) -/
def playLine (p : Pos) : List Mv → Option Pos
  | [] => some p
  | m :: ms => if legalB p m then playLine (fixupEP (apply p m)) ms else none

/-- index of the first illegal move of the line, if any -/
def firstIllegal (p : Pos) : List Mv → Nat → Option Nat
  | [], _ => none
  | m :: ms, i => if legalB p m then firstIllegal (fixupEP (apply p m)) ms (i + 1) else some i

/-- `Playable p ms q`: `ms` is a sequence of legal moves leading from `p` to `q` -/
inductive Playable : Pos → List Mv → Pos → Prop
  | nil (p) : Playable p [] p
  | cons (p m ms q) : legalB p m = true → Playable (fixupEP (apply p m)) ms q → Playable p (m :: ms) q

theorem playLine_iff (p : Pos) (ms : List Mv) (q : Pos) : playLine p ms = some q ↔ Playable p ms q := by
  induction ms generalizing p with
  | nil =>
    simp only [playLine, Option.some.injEq]
    constructor
    · rintro rfl; exact .nil p
    · intro h; cases h; rfl
  | cons m ms ih =>
    simp only [playLine]
    constructor
    · intro h
      split at h
      · next hl => exact .cons p m ms q hl ((ih _).1 h)
      · cases h
    · intro h
      cases h with
      | cons _ _ _ _ hl hr => rw [if_pos hl]; exact (ih _).2 hr

end Chess
