import TexelVerif.Chess.GenCheck
/-! Lemmas about the specification and the move-generation acceptor. -/
namespace Chess

set_option maxRecDepth 100000 in
theorem promo_of_isPromoPiece : ∀ (w : Bool) (n : Fin 256), isPromoPiece w (UInt8.ofNat n.val) = true → UInt8.ofNat n.val ∈ promos w := by
  decide +kernel

theorem promo_mem (w : Bool) (pr : Pc) (h : isPromoPiece w pr = true) : pr ∈ promos w := by
  have := promo_of_isPromoPiece w ⟨pr.toNat, pr.toNat_lt⟩
  simp only [UInt8.ofNat_toNat] at this
  exact this h

theorem zero_mem_promos (w : Bool) : (0 : Pc) ∈ promos w := by cases w <;> simp [promos]

theorem promoOk_mem (w : Bool) (m : Mv) (h : promoOk w m = true) : m.promo ∈ promos w := by
  unfold promoOk at h
  by_cases hc : (m.t.y == (if w then 7 else 0)) = true
  · rw [if_pos hc] at h; exact promo_mem _ _ h
  · rw [if_neg hc] at h
    have : m.promo = 0 := by simpa using h
    rw [this]; exact zero_mem_promos _

theorem pseudo_own (p : Pos) (m : Mv) (h : pseudo p m = true) : own p.wtm (p.at m.f) = true := by
  unfold pseudo at h
  simp only [Bool.and_eq_true] at h
  exact h.1.1.1

theorem pseudo_promo (p : Pos) (m : Mv) (h : pseudo p m = true) : m.promo ∈ promos p.wtm := by
  unfold pseudo at h
  simp only [Bool.and_eq_true] at h
  obtain ⟨_, hk⟩ := h
  split at hk
  · simp only [Bool.and_eq_true] at hk
    exact promoOk_mem _ _ hk.1
  · simp only [Bool.and_eq_true] at hk
    have : m.promo = 0 := by simpa using hk.1
    rw [this]; exact zero_mem_promos _
  · simp only [Bool.and_eq_true] at hk
    have : m.promo = 0 := by simpa using hk.1
    rw [this]; exact zero_mem_promos _

theorem mem_candidates (p : Pos) (m : Mv) : m ∈ candidates p ↔ (own p.wtm (p.at m.f) = true ∧ m.promo ∈ promos p.wtm) := by
  unfold candidates
  simp only [List.mem_flatMap, List.mem_filter, List.mem_map, allSq, List.mem_finRange, true_and]
  constructor
  · rintro ⟨f, hf, t, pr, hpr, rfl⟩
    exact ⟨hf, hpr⟩
  · rintro ⟨h1, h2⟩
    exact ⟨m.f, h1, m.t, m.promo, h2, rfl⟩

theorem mem_genPseudo (p : Pos) (m : Mv) : m ∈ genPseudo p ↔ pseudo p m = true := by
  unfold genPseudo
  rw [List.mem_filter, mem_candidates]
  constructor
  · exact fun h => h.2
  · exact fun h => ⟨⟨pseudo_own p m h, pseudo_promo p m h⟩, h⟩

theorem mem_genLegal (p : Pos) (m : Mv) : m ∈ genLegal p ↔ legalB p m = true := by
  unfold genLegal
  rw [List.mem_filter, mem_candidates]
  constructor
  · exact fun h => h.2
  · intro h
    have hp : pseudo p m = true := by
      unfold legalB at h; simp only [Bool.and_eq_true] at h; exact h.1
    exact ⟨⟨pseudo_own p m hp, pseudo_promo p m hp⟩, h⟩

theorem nodupB_iff (l : List Mv) : nodupB l = true ↔ l.Nodup := by
  induction l with
  | nil => simp [nodupB]
  | cons a l ih => simp [nodupB, ih, List.nodup_cons]

end Chess
