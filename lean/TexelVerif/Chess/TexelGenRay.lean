import TexelVerif.Chess.TexelGen
/-!
Bitboard and ray lemmas for the model of `MoveGen`:
* `tst_*`: reading bits of and / or / not / shifts / predicate bitboards;
* `rayGo_iff`, `rayBB_iff`: both ray walks (the specification's over the board, the generator's over the
  occupancy bitboard) reach `t` iff `t` is the k-th square of the ray and the k-1 squares before it are empty;
* `ray_eq_rayReach`: the generator's sliding attack set over the board's occupancy is the specification's;
* `ray_inner`: a ray does not depend on the occupancy of its last square ⇒ `rookAttacks_inner`, `bishopAttacks_inner`.
-/
namespace Chess.Texel
open PosImpl (BB bit bbOf bbOf_get bit_get)

/-! ## bits -/

theorem tst_bbSq (f : Sq → Bool) (s : Sq) : tst (bbSq f) s = f s := by
  unfold tst bbSq
  rw [bbOf_get _ _ s.isLt]
  simp [s.isLt]

@[simp] theorem tst_and (a b : BB) (s : Sq) : tst (a &&& b) s = (tst a s && tst b s) := by simp [tst]
@[simp] theorem tst_or (a b : BB) (s : Sq) : tst (a ||| b) s = (tst a s || tst b s) := by simp [tst]
@[simp] theorem tst_not (a : BB) (s : Sq) : tst (~~~a) s = !tst a s := by simp [tst, s.isLt]
@[simp] theorem tst_zero (s : Sq) : tst 0 s = false := by simp [tst]
@[simp] theorem tst_zero' (s : Sq) : tst (0#64) s = false := by simp [tst]

theorem tst_sqBit (s t : Sq) : tst (sqBit s) t = decide (t = s) := by
  unfold tst sqBit
  rw [bit_get _ _ t.isLt s.isLt]
  simp [Fin.ext_iff]

theorem bb_eq_zero_iff (a : BB) : a = 0 ↔ ∀ s : Sq, tst a s = false := by
  constructor
  · intro h s; subst h; simp [tst]
  · intro h
    apply PosImpl.bb_ext
    intro i hi
    have := h ⟨i, hi⟩
    simpa [tst] using this

theorem bb_ne_zero_iff (a : BB) : (a != 0) = true ↔ ∃ s : Sq, tst a s = true := by
  rw [bne_iff_ne, Ne, bb_eq_zero_iff]
  constructor
  · intro h
    apply Classical.byContradiction
    intro hn
    apply h
    intro s
    cases hs : tst a s
    · rfl
    · exact absurd ⟨s, hs⟩ hn
  · rintro ⟨s, hs⟩ h
    rw [h s] at hs; cases hs

theorem bb_beq_zero_iff (a : BB) : (a == 0) = true ↔ ∀ s : Sq, tst a s = false := by
  rw [beq_iff_eq, bb_eq_zero_iff]

theorem bb_ext_sq (a b : BB) (h : ∀ s : Sq, tst a s = tst b s) : a = b :=
  PosImpl.bb_ext a b fun i hi => h ⟨i, hi⟩

/-- `(x & (1ULL << s)) == 0` tests bit `s` -/
theorem and_sqBit_eq_zero (a : BB) (s : Sq) : ((a &&& sqBit s) == 0) = !tst a s := by
  cases h : tst a s
  · simp only [Bool.not_false]
    rw [bb_beq_zero_iff]
    intro t
    rw [tst_and, tst_sqBit]
    by_cases e : t = s
    · subst e; simp [h]
    · simp [e]
  · simp only [Bool.not_true]
    apply Bool.eq_false_iff.2
    intro h0
    rw [bb_beq_zero_iff] at h0
    have := h0 s
    rw [tst_and, tst_sqBit, h] at this
    simp at this

theorem mem_squaresOf (m : BB) (s : Sq) : s ∈ squaresOf m ↔ tst m s = true := by
  simp [squaresOf, allSq]

theorem squaresOf_nodup (m : BB) : (squaresOf m).Nodup :=
  List.Pairwise.filter _ (List.nodup_finRange 64)

/-! ## coordinates -/

theorem Sq.x_lt (s : Sq) : s.x < 8 := Nat.mod_lt _ (by decide)
theorem Sq.y_lt (s : Sq) : s.y < 8 := by unfold Sq.y; omega
theorem Sq.val_eq (s : Sq) : s.val = s.y * 8 + s.x := by unfold Sq.x Sq.y; omega

theorem Sq.ext_xy (s t : Sq) (hx : s.x = t.x) (hy : s.y = t.y) : s = t := by
  apply Fin.ext; rw [Sq.val_eq s, Sq.val_eq t, hx, hy]

theorem mkSq?_eq_some (x y : Int) (q : Sq) : mkSq? x y = some q ↔ ((q.x : Int) = x ∧ (q.y : Int) = y) := by
  unfold mkSq?
  have hx := Sq.x_lt q; have hy := Sq.y_lt q; have hv := Sq.val_eq q
  split
  · rename_i h
    simp only [Option.some.injEq]
    constructor
    · intro e
      have : q.val = (y * 8 + x).toNat := by rw [← e]
      omega
    · intro ⟨e1, e2⟩
      apply Fin.ext
      simp only
      omega
  · rename_i h
    simp only [reduceCtorEq, false_iff]
    omega

theorem mkSq?_xy (s : Sq) : mkSq? s.x s.y = some s := (mkSq?_eq_some _ _ _).2 ⟨rfl, rfl⟩

theorem mkSq?_eq_none (x y : Int) : mkSq? x y = none ↔ ¬ (0 ≤ x ∧ x < 8 ∧ 0 ≤ y ∧ y < 8) := by
  unfold mkSq?; split <;> simp_all

theorem mkSq?_isSome (x y : Int) : (mkSq? x y).isSome = true ↔ (0 ≤ x ∧ x < 8 ∧ 0 ≤ y ∧ y < 8) := by
  unfold mkSq?; split <;> simp_all

/-! ## rays -/

/-- the j-th square from `(x, y)` in direction `(dx, dy)` -/
def stepSq (x y dx dy : Int) (j : Nat) : Option Sq := mkSq? (x + j * dx) (y + j * dy)

/-- `t` is the k-th square of the ray and squares 1..k-1 are on the board and satisfy `emp` -/
def ReachN (emp : Sq → Bool) (x y dx dy : Int) (k : Nat) (t : Sq) : Prop :=
  1 ≤ k ∧ stepSq x y dx dy k = some t ∧ ∀ j, 1 ≤ j → j < k → ∃ q, stepSq x y dx dy j = some q ∧ emp q = true

theorem stepSq_one (x y dx dy : Int) : stepSq x y dx dy 1 = mkSq? (x + dx) (y + dy) := by
  simp [stepSq]

theorem stepSq_shift (x y dx dy : Int) (j : Nat) : stepSq (x + dx) (y + dy) dx dy j = stepSq x y dx dy (j + 1) := by
  unfold stepSq
  have h1 : ((j + 1 : Nat) : Int) * dx = j * dx + dx := by rw [Int.natCast_add, Int.add_mul]; simp
  have h2 : ((j + 1 : Nat) : Int) * dy = j * dy + dy := by rw [Int.natCast_add, Int.add_mul]; simp
  rw [h1, h2]
  congr 1 <;> omega

theorem reachN_shift (emp : Sq → Bool) (x y dx dy : Int) (k : Nat) (t q : Sq)
    (hq : mkSq? (x + dx) (y + dy) = some q) (he : emp q = true) (hk : 1 ≤ k) :
    ReachN emp (x + dx) (y + dy) dx dy k t ↔ ReachN emp x y dx dy (k + 1) t := by
  unfold ReachN
  constructor
  · rintro ⟨_, h2, h3⟩
    refine ⟨by omega, by rw [← stepSq_shift]; exact h2, ?_⟩
    intro j hj1 hjk
    by_cases e : j = 1
    · subst e; exact ⟨q, by rw [stepSq_one]; exact hq, he⟩
    · obtain ⟨j', rfl⟩ : ∃ j', j = j' + 1 := ⟨j - 1, by omega⟩
      rw [← stepSq_shift]
      exact h3 j' (by omega) (by omega)
  · rintro ⟨_, h2, h3⟩
    refine ⟨hk, by rw [stepSq_shift]; exact h2, ?_⟩
    intro j hj1 hjk
    rw [stepSq_shift]
    exact h3 (j + 1) (by omega) (by omega)

/-- **the specification's ray walk**: `t` is reached iff it is the k-th ray square (k ≤ fuel) and the squares
    before it are empty -/
theorem rayGo_iff (b : Board) (t : Sq) (dx dy : Int) (n : Nat) (x y : Int) :
    rayGo b t dx dy n x y = true ↔ ∃ k, k ≤ n ∧ ReachN (fun q => b[q] == 0) x y dx dy k t := by
  induction n generalizing x y with
  | zero =>
    simp only [rayGo, Bool.false_eq_true, false_iff]
    rintro ⟨k, hk, h1, _⟩; omega
  | succ n ih =>
    unfold rayGo
    cases hq : mkSq? (x + dx) (y + dy) with
    | none =>
      simp only [Bool.false_eq_true, false_iff]
      rintro ⟨k, _, h1, h2, h3⟩
      by_cases e : k = 1
      · subst e; rw [stepSq_one, hq] at h2; cases h2
      · obtain ⟨q, h, _⟩ := h3 1 (by omega) (by omega)
        rw [stepSq_one, hq] at h; cases h
    | some q =>
      simp only
      by_cases e : q = t
      · subst e
        simp only [beq_self_eq_true, if_true, true_iff]
        exact ⟨1, by omega, by omega, by rw [stepSq_one]; exact hq, fun j h1 h2 => by omega⟩
      · have e' : (q == t) = false := by simpa using e
        rw [e']
        simp only [Bool.false_eq_true, if_false]
        by_cases hb : b[q] = 0
        · have : (b[q] != 0) = false := by simp [hb]
          rw [this]
          simp only [Bool.false_eq_true, if_false]
          rw [ih]
          constructor
          · rintro ⟨k, hk, hr⟩
            exact ⟨k + 1, by omega, (reachN_shift _ x y dx dy k t q hq (by simp [hb]) hr.1).1 hr⟩
          · rintro ⟨k, hk, hr⟩
            have hk1 : k ≠ 1 := by
              intro e1; subst e1
              have := hr.2.1; rw [stepSq_one, hq] at this
              exact e (Option.some.inj this)
            obtain ⟨k', rfl⟩ : ∃ k', k = k' + 1 := ⟨k - 1, by have := hr.1; omega⟩
            have hk' : 1 ≤ k' := by have := hr.1; omega
            exact ⟨k', by omega, (reachN_shift _ x y dx dy k' t q hq (by simp [hb]) hk').2 hr⟩
        · have : (b[q] != 0) = true := bne_iff_ne.2 hb
          rw [this]
          simp only [if_true, Bool.false_eq_true, false_iff]
          rintro ⟨k, _, h1, h2, h3⟩
          by_cases e1 : k = 1
          · subst e1; rw [stepSq_one, hq] at h2; exact e (Option.some.inj h2)
          · obtain ⟨q', h, hemp⟩ := h3 1 (by omega) (by omega)
            rw [stepSq_one, hq] at h
            have : q = q' := Option.some.inj h
            subst this
            exact hb (beq_iff_eq.1 hemp)

/-- the generator's ray walk over an occupancy bitboard is the specification's ray walk over any board with that
    occupancy -/
theorem rayBB_rayGo (occ : BB) (b : Board) (h : ∀ q, tst occ q = (b[q] != 0)) (t : Sq) (dx dy : Int) (n : Nat) (x y : Int) :
    tst (rayBB occ dx dy n x y) t = rayGo b t dx dy n x y := by
  induction n generalizing x y with
  | zero => simp [rayBB, rayGo]
  | succ n ih =>
    unfold rayBB rayGo
    cases hq : mkSq? (x + dx) (y + dy) with
    | none => simp
    | some q =>
      simp only
      rw [← h q]
      by_cases e : q = t
      · subst e
        cases tst occ q <;> simp [tst_sqBit]
      · have e' : (q == t) = false := by simpa using e
        have e2 : ¬ t = q := fun h => e h.symm
        cases ho : tst occ q <;> simp [tst_sqBit, e', e2, ih]

/-- a board with a given occupancy -/
def boardOf (occ : BB) : Board := Vector.ofFn fun i => if tst occ i then WPAWN else EMPTY

theorem boardOf_occ (occ : BB) (q : Sq) : tst occ q = ((boardOf occ)[q] != 0) := by
  simp only [boardOf, Fin.getElem_fin, Vector.getElem_ofFn]
  cases tst occ ⟨q.val, q.isLt⟩ <;> simp [WPAWN, EMPTY]

theorem rayBB_iff (occ : BB) (t : Sq) (dx dy : Int) (n : Nat) (x y : Int) :
    tst (rayBB occ dx dy n x y) t = true ↔ ∃ k, k ≤ n ∧ ReachN (fun q => !tst occ q) x y dx dy k t := by
  rw [rayBB_rayGo occ (boardOf occ) (boardOf_occ occ), rayGo_iff]
  have : (fun q : Sq => (boardOf occ)[q] == 0) = (fun q => !tst occ q) := by
    funext q; rw [boardOf_occ occ q]; cases h : (boardOf occ)[q] == 0 <;> simp_all
  rw [this]

/-! ## unit directions -/

/-- one of the eight king directions -/
def IsDir (dx dy : Int) : Prop := -1 ≤ dx ∧ dx ≤ 1 ∧ -1 ≤ dy ∧ dy ≤ 1 ∧ (dx ≠ 0 ∨ dy ≠ 0)

theorem dir_cases {dx : Int} (h1 : -1 ≤ dx) (h2 : dx ≤ 1) : dx = -1 ∨ dx = 0 ∨ dx = 1 := by omega

theorem stepSq_eq_some (x y dx dy : Int) (j : Nat) (q : Sq) :
    stepSq x y dx dy j = some q ↔ ((q.x : Int) = x + j * dx ∧ (q.y : Int) = y + j * dy) := mkSq?_eq_some _ _ _

/-- a square reached after `k` unit steps from a board square has `k ≤ 7` -/
theorem step_le7 (s t : Sq) (dx dy : Int) (hd : IsDir dx dy) (k : Nat) (h : stepSq s.x s.y dx dy k = some t) : k ≤ 7 := by
  rw [stepSq_eq_some] at h
  have := Sq.x_lt s; have := Sq.y_lt s; have := Sq.x_lt t; have := Sq.y_lt t
  obtain ⟨h1, h2, h3, h4, h5⟩ := hd
  rcases dir_cases h1 h2 with rfl | rfl | rfl <;> rcases dir_cases h3 h4 with rfl | rfl | rfl <;>
    simp only [Int.mul_neg, Int.mul_one, Int.mul_zero] at h <;> omega

/-- the squares between a board square and the k-th ray square are on the board -/
theorem step_between (s t : Sq) (dx dy : Int) (hd : IsDir dx dy) (k j : Nat) (h : stepSq s.x s.y dx dy k = some t) (hj : j ≤ k) :
    ∃ q, stepSq s.x s.y dx dy j = some q := by
  rw [stepSq_eq_some] at h
  have hs : (stepSq s.x s.y dx dy j).isSome = true := by
    unfold stepSq; rw [mkSq?_isSome]
    have := Sq.x_lt s; have := Sq.y_lt s; have := Sq.x_lt t; have := Sq.y_lt t
    obtain ⟨h1, h2, h3, h4, h5⟩ := hd
    rcases dir_cases h1 h2 with rfl | rfl | rfl <;> rcases dir_cases h3 h4 with rfl | rfl | rfl <;>
      simp only [Int.mul_neg, Int.mul_one, Int.mul_zero] at h ⊢ <;> omega
  exact Option.isSome_iff_exists.1 hs

theorem rayReach_iff (b : Board) (s t : Sq) (dx dy : Int) (hd : IsDir dx dy) :
    rayReach b s t dx dy = true ↔ ∃ k, ReachN (fun q => b[q] == 0) s.x s.y dx dy k t := by
  unfold rayReach; rw [rayGo_iff]
  constructor
  · rintro ⟨k, _, h⟩; exact ⟨k, h⟩
  · rintro ⟨k, h⟩; exact ⟨k, step_le7 s t dx dy hd k h.2.1, h⟩

theorem tst_ray_iff (occ : BB) (s t : Sq) (dx dy : Int) (hd : IsDir dx dy) :
    tst (ray occ s dx dy) t = true ↔ ∃ k, ReachN (fun q => !tst occ q) s.x s.y dx dy k t := by
  unfold ray; rw [rayBB_iff]
  constructor
  · rintro ⟨k, _, h⟩; exact ⟨k, h⟩
  · rintro ⟨k, h⟩; exact ⟨k, step_le7 s t dx dy hd k h.2.1, h⟩

theorem ray_eq_rayReach (occ : BB) (b : Board) (h : ∀ q, tst occ q = (b[q] != 0)) (s t : Sq) (dx dy : Int) :
    tst (ray occ s dx dy) t = rayReach b s t dx dy := rayBB_rayGo occ b h t dx dy 7 _ _

/-! ## the occupancy of the last square of a ray is irrelevant -/

theorem rayBB_off (occ : BB) (dx dy : Int) (n : Nat) (x y : Int) (h : mkSq? (x + dx) (y + dy) = none) :
    rayBB occ dx dy n x y = 0 := by
  cases n with
  | zero => rfl
  | succ n => unfold rayBB; rw [h]

theorem rayBB_congr (occ occ' : BB) (dx dy : Int) (n : Nat) (x y : Int)
    (h : ∀ j q, 1 ≤ j → stepSq x y dx dy j = some q → (stepSq x y dx dy (j + 1)).isSome = true → tst occ q = tst occ' q) :
    rayBB occ dx dy n x y = rayBB occ' dx dy n x y := by
  induction n generalizing x y with
  | zero => rfl
  | succ n ih =>
    unfold rayBB
    cases hq : mkSq? (x + dx) (y + dy) with
    | none => rfl
    | some q =>
      simp only
      have hrec : rayBB occ dx dy n (x + dx) (y + dy) = rayBB occ' dx dy n (x + dx) (y + dy) := by
        apply ih
        intro j q' hj h1 h2
        rw [stepSq_shift] at h1 h2
        exact h (j + 1) q' (by omega) h1 h2
      cases hn : mkSq? (x + dx + dx) (y + dy + dy) with
      | none =>
        rw [rayBB_off occ dx dy n _ _ hn, rayBB_off occ' dx dy n _ _ hn]
        have : sqBit q ||| (0 : BB) = sqBit q := by simp
        rw [this]; simp
      | some q2 =>
        have : tst occ q = tst occ' q := by
          apply h 1 q (by omega) (by rw [stepSq_one]; exact hq)
          rw [← stepSq_shift, stepSq_one, hn]; rfl
        rw [this, hrec]

theorem tst_innerRay (s q : Sq) (dx dy : Int) (hd : IsDir dx dy) (j : Nat) (hj : 1 ≤ j)
    (h1 : stepSq s.x s.y dx dy j = some q) (h2 : (stepSq s.x s.y dx dy (j + 1)).isSome = true) :
    tst (innerRay s dx dy) q = true := by
  unfold innerRay
  rw [tst_bbSq, Bool.and_eq_true]
  constructor
  · rw [tst_ray_iff _ _ _ _ _ hd]
    refine ⟨j, hj, h1, ?_⟩
    intro j' _ hj'
    obtain ⟨q', hq'⟩ := step_between s q dx dy hd j j' h1 (by omega)
    exact ⟨q', hq', by simp⟩
  · rw [← stepSq_shift] at h2
    rw [stepSq_eq_some] at h1
    have : stepSq (s.x + dx) (s.y + dy) dx dy j = mkSq? ((q.x : Int) + dx) ((q.y : Int) + dy) := by
      unfold stepSq; rw [h1.1, h1.2]; congr 1 <;> omega
    rw [← this]; exact h2

/-- a ray over `occ` equals the ray over `occ` restricted to any mask containing the inner ray squares -/
theorem ray_inner (occ M : BB) (s : Sq) (dx dy : Int) (hd : IsDir dx dy)
    (hM : ∀ q, tst (innerRay s dx dy) q = true → tst M q = true) :
    ray occ s dx dy = ray (occ &&& M) s dx dy := by
  unfold ray
  apply rayBB_congr
  intro j q hj h1 h2
  rw [tst_and, hM q (tst_innerRay s q dx dy hd j hj h1 h2)]; simp

theorem isDir_rook : IsDir 1 0 ∧ IsDir (-1) 0 ∧ IsDir 0 1 ∧ IsDir 0 (-1) := by unfold IsDir; omega
theorem isDir_bishop : IsDir 1 1 ∧ IsDir 1 (-1) ∧ IsDir (-1) 1 ∧ IsDir (-1) (-1) := by unfold IsDir; omega

/-- **`rookAttacks` depends on the occupancy only through the inner mask** (edge squares never matter) -/
theorem rookAttacks_inner (s : Sq) (occ : BB) : rookAttacks s occ = rookAttacks s (occ &&& rookInner s) := by
  unfold rookAttacks
  obtain ⟨d1, d2, d3, d4⟩ := isDir_rook
  rw [ray_inner occ (rookInner s) s 1 0 d1 (fun q h => by simp [rookInner, h]),
      ray_inner occ (rookInner s) s (-1) 0 d2 (fun q h => by simp [rookInner, h]),
      ray_inner occ (rookInner s) s 0 1 d3 (fun q h => by simp [rookInner, h]),
      ray_inner occ (rookInner s) s 0 (-1) d4 (fun q h => by simp [rookInner, h])]

theorem bishopAttacks_inner (s : Sq) (occ : BB) : bishopAttacks s occ = bishopAttacks s (occ &&& bishopInner s) := by
  unfold bishopAttacks
  obtain ⟨d1, d2, d3, d4⟩ := isDir_bishop
  rw [ray_inner occ (bishopInner s) s 1 1 d1 (fun q h => by simp [bishopInner, h]),
      ray_inner occ (bishopInner s) s 1 (-1) d2 (fun q h => by simp [bishopInner, h]),
      ray_inner occ (bishopInner s) s (-1) 1 d3 (fun q h => by simp [bishopInner, h]),
      ray_inner occ (bishopInner s) s (-1) (-1) d4 (fun q h => by simp [bishopInner, h])]

end Chess.Texel
