import TexelVerif.Chess.Fen
/-!
# Move text: `TextIO::moveToString`, `stringToMove`, `moveToUCIString`, `uciStringToMove`

Mirrors `lib/texellib/textio.cpp:268-594` over the shared `Pos`.  Strings are `List Char`; a C++ `char` is one
byte, the driver maps byte `b` to `Char.ofNat b`, and every character test below is written on `Char.toNat`
exactly as the C++ writes it on the (signed) `char` — for bytes ≥ 128 the C++ differences `c - 'a'`, `c - '1'`
are negative and ours are ≥ 31, out of `[0, 8)` on both sides.

The legal move list is a parameter (`…L` functions) exactly as in the static C++ `moveToString(pos, move,
longForm, moves)`; the public functions instantiate it with the specification's `genLegal`.  The real code
obtains the list from `MoveGen::pseudoLegalMoves` + `removeIllegal` and the check/mate suffix from
`MoveGen::givesCheck`; property C01 ties both to the specification.
-/
namespace Chess

def fileCh (x : Nat) : Char := Char.ofNat (97 + x)
def rankCh (y : Nat) : Char := Char.ofNat (49 + y)

/-- `TextIO::pieceToChar(p, handlePawn = false)` -/
def pieceLetter (pc : Pc) : List Char :=
  if pc == WQUEEN || pc == BQUEEN then ['Q']
  else if pc == WROOK || pc == BROOK then ['R']
  else if pc == WBISHOP || pc == BBISHOP then ['B']
  else if pc == WKNIGHT || pc == BKNIGHT then ['N']
  else if pc == WKING || pc == BKING then ['K']
  else []

def ownPawn (w : Bool) : Pc := if w then WPAWN else BPAWN

/-- the file-static `isCapture(pos, move)` of textio.cpp -/
def sanIsCapture (p : Pos) (m : Mv) : Bool :=
  p.at m.t != 0 || (p.at m.f == ownPawn p.wtm && p.ep == some m.t)

/-- "O-O" / "O-O-O" when the king leaves its original square for the g- or c-file, else empty -/
def castleText (p : Pos) (m : Mv) : List Char :=
  if m.f.val == 4 && p.at m.f == WKING then
    (if m.t.val == 6 then ['O', '-', 'O'] else if m.t.val == 2 then ['O', '-', 'O', '-', 'O'] else [])
  else if m.f.val == 60 && p.at m.f == BKING then
    (if m.t.val == 62 then ['O', '-', 'O'] else if m.t.val == 58 then ['O', '-', 'O', '-', 'O'] else [])
  else []

/-- legal moves of the same piece code to the same square (`numSameTarget` counts these) -/
def sameTarget (legal : List Mv) (p : Pos) (m : Mv) : List Mv :=
  legal.filter fun m' => p.at m'.f == p.at m.f && m'.t == m.t

/-- the disambiguation characters of a non-pawn move in short form: nothing, file, rank, or both -/
def disambig (legal : List Mv) (p : Pos) (m : Mv) : List Char :=
  let st := sameTarget legal p m
  let numSameFile := (st.filter fun m' => m'.f.x == m.f.x).length
  let numSameRow := (st.filter fun m' => m'.f.y == m.f.y).length
  if st.length < 2 then []
  else if numSameFile < 2 then [fileCh m.f.x]
  else if numSameRow < 2 then [rankCh m.f.y]
  else [fileCh m.f.x, rankCh m.f.y]

/-- everything before the check/mate suffix, for a move that is not written as castling -/
def sanBody (legal : List Mv) (p : Pos) (m : Mv) (long : Bool) : List Char :=
  let pc := p.at m.f
  let cap := sanIsCapture p m
  pieceLetter pc ++
  (if long then [fileCh m.f.x, rankCh m.f.y, if cap then 'x' else '-']
   else
     (if pc == ownPawn p.wtm then (if cap then [fileCh m.f.x] else []) else disambig legal p m) ++
     (if cap then ['x'] else [])) ++
  [fileCh m.t.x, rankCh m.t.y] ++ pieceLetter m.promo

def hasLegalMove (p : Pos) : Bool := (candidates p).any (legalB p)

/-- "+" when the move gives check, "#" when the opponent then has no legal move -/
def checkSuffix (p : Pos) (m : Mv) : List Char :=
  let q := apply p m
  if inCheck q.b q.wtm then (if hasLegalMove q then ['+'] else ['#']) else []

def moveToStringL (legal : List Mv) (p : Pos) (m : Mv) (long : Bool) : List Char :=
  let c := castleText p m
  (if c.isEmpty then sanBody legal p m long else c) ++ checkSuffix p m

/-- `TextIO::moveToString(pos, move, longForm)` -/
def moveToString (p : Pos) (m : Mv) (long : Bool) : List Char := moveToStringL (genLegal p) p m long

/-! ## stringToMove -/

/-- `TextIO::charToPiece(white, c)`; -1 when `c` is not a piece letter (note: `'b'` is not one) -/
def charToPiece (w : Bool) (c : Char) : Int :=
  if c == 'Q' || c == 'q' then (if w then 2 else 8)
  else if c == 'R' || c == 'r' then (if w then 3 else 9)
  else if c == 'B' then (if w then 4 else 10)
  else if c == 'N' || c == 'n' then (if w then 5 else 11)
  else if c == 'K' || c == 'k' then (if w then 1 else 7)
  else if c == 'P' || c == 'p' then (if w then 6 else 12)
  else -1

/-- the local `struct MoveInfo`; -1 = unspecified -/
structure MoveInfo where
  piece : Int := -1
  fromX : Int := -1
  fromY : Int := -1
  toX : Int := -1
  toY : Int := -1
  promPiece : Int := -1
deriving DecidableEq, Repr

structure PSt where
  info : MoveInfo := {}
  atToSq : Bool := false
  capture : Bool := false
deriving DecidableEq, Repr

/-- one iteration of the character loop (textio.cpp:497-531); `n` is `strMove.length()` -/
def parseStep (w : Bool) (n : Nat) (st : PSt) (i : Nat) (c : Char) : PSt :=
  if i == 0 && charToPiece w c ≥ 0 then { st with info := { st.info with piece := charToPiece w c } }
  else
    let info := st.info
    let tmpX : Int := (c.toNat : Int) - 97
    let info := if 0 ≤ tmpX ∧ tmpX < 8 then
        (if st.atToSq || info.fromX ≥ 0 then { info with toX := tmpX } else { info with fromX := tmpX }) else info
    let tmpY : Int := (c.toNat : Int) - 49
    let info := if 0 ≤ tmpY ∧ tmpY < 8 then
        (if st.atToSq || info.fromY ≥ 0 then { info with toY := tmpY } else { info with fromY := tmpY }) else info
    let atToSq := st.atToSq || c == 'x' || c == '-'
    let capture := st.capture || c == 'x'
    let info := if i + 1 == n && charToPiece w c ≥ 0 then { info with promPiece := charToPiece w c } else info
    { info := info, atToSq := atToSq, capture := capture }

def parseGo (w : Bool) (n : Nat) : Nat → List Char → PSt → PSt
  | _, [], st => st
  | i, c :: cs, st => parseGo w n (i + 1) cs (parseStep w n st i c)

/-- the fix-ups after the loop (textio.cpp:532-547) -/
def finishInfo (w : Bool) (info : MoveInfo) : MoveInfo :=
  let info := if info.fromX ≥ 0 ∧ info.toX < 0 then { info with toX := info.fromX, fromX := -1 } else info
  let info := if info.fromY ≥ 0 ∧ info.toY < 0 then { info with toY := info.fromY, fromY := -1 } else info
  let info := if info.piece < 0 then
      (if info.fromX ≥ 0 ∧ info.fromY ≥ 0 ∧ info.toX ≥ 0 ∧ info.toY ≥ 0 then info else { info with piece := (ownPawn w).toNat })
    else info
  if info.promPiece < 0 then { info with promPiece := 0 } else info

def castleInfo (w : Bool) (short : Bool) : MoveInfo :=
  { piece := if w then 1 else 7, fromX := 4, toX := if short then 6 else 2,
    fromY := if w then 0 else 7, toY := if w then 0 else 7, promPiece := 0 }

def isShortCastleText (s : List Char) : Bool :=
  s == ['O', '-', 'O'] || s == ['0', '-', '0'] || s == ['o', '-', 'o']
def isLongCastleText (s : List Char) : Bool :=
  s == ['O', '-', 'O', '-', 'O'] || s == ['0', '-', '0', '-', '0'] || s == ['o', '-', 'o', '-', 'o']

/-- the constraint record and the capture flag for the (already stripped) move text -/
def parseInfo (w : Bool) (s : List Char) : MoveInfo × Bool :=
  if isShortCastleText s then (castleInfo w true, false)
  else if isLongCastleText s then (castleInfo w false, false)
  else
    let st := parseGo w s.length 0 s {}
    (finishInfo w st.info, st.capture)

/-- the matching test of the loop over the legal moves (textio.cpp:555-573) -/
def infoMatches (p : Pos) (info : MoveInfo) (m : Mv) : Bool :=
  !(info.piece ≥ 0 && info.piece != ((p.at m.f).toNat : Int)) &&
  !(info.fromX ≥ 0 && info.fromX != (m.f.x : Int)) &&
  !(info.fromY ≥ 0 && info.fromY != (m.f.y : Int)) &&
  !(info.toX ≥ 0 && info.toX != (m.t.x : Int)) &&
  !(info.toY ≥ 0 && info.toY != (m.t.y : Int)) &&
  !(info.promPiece ≥ 0 && info.promPiece != (m.promo.toNat : Int))

/-- removal of '=', '+', '#' (textio.cpp:456-467) -/
def stripMoveText (s : List Char) : List Char := s.filter fun c => !(c == '=' || c == '+' || c == '#')

/-- the selection among the matching moves (textio.cpp:574-593); `none` is the empty `Move()` -/
def selectMatch (p : Pos) (ms : List Mv) (capture : Bool) : Option Mv :=
  match ms with
  | [] => none
  | [m] => some m
  | _ =>
    if !capture then none
    else match ms.filter fun m => p.at m.t != 0 with
      | [m] => some m
      | _ => none

def stringToMoveL (legal : List Mv) (p : Pos) (s : List Char) : Option Mv :=
  let s := stripMoveText s
  if s == ['-', '-'] then none
  else
    let (info, capture) := parseInfo p.wtm s
    selectMatch p (legal.filter (infoMatches p info)) capture

/-- `TextIO::stringToMove(pos, str)`; `none` is the empty move -/
def stringToMove (p : Pos) (s : List Char) : Option Mv := stringToMoveL (genLegal p) p s

/-! ## UCI move text -/

def sqChars (s : Sq) : List Char := [fileCh s.x, rankCh s.y]

/-- `TextIO::moveToUCIString` -/
def moveToUCI (m : Mv) : List Char :=
  sqChars m.f ++ sqChars m.t ++
  (if m.promo == WQUEEN || m.promo == BQUEEN then ['q']
   else if m.promo == WROOK || m.promo == BROOK then ['r']
   else if m.promo == WBISHOP || m.promo == BBISHOP then ['b']
   else if m.promo == WKNIGHT || m.promo == BKNIGHT then ['n']
   else [])

/-- `TextIO::getSquare` on a two-character string -/
def getSquare (c0 c1 : Char) : Option Sq := mkSq? ((c0.toNat : Int) - 97) ((c1.toNat : Int) - 49)

/-- `Move::isEmpty()`: from and to are both a1 -/
def Mv.isEmpty (m : Mv) : Bool := m.f.val == 0 && m.t.val == 0

/-- `TextIO::uciStringToMove`; `none` stands for every result with `isEmpty()` (the callers test only that) -/
def uciStringToMove (s : List Char) : Option Mv :=
  let mk (c0 c1 c2 c3 : Char) (prom : Option Char) : Option Mv :=
    match getSquare c0 c1, getSquare c2 c3 with
    | some f, some t =>
      match prom with
      | none => some { f := f, t := t, promo := 0 }
      | some pc =>
        if t.y == 7 || t.y == 0 then
          let white := t.y == 7
          if pc == ' ' then some { f := f, t := t, promo := 0 }
          else if pc == 'q' then some { f := f, t := t, promo := if white then WQUEEN else BQUEEN }
          else if pc == 'r' then some { f := f, t := t, promo := if white then WROOK else BROOK }
          else if pc == 'b' then some { f := f, t := t, promo := if white then WBISHOP else BBISHOP }
          else if pc == 'n' then some { f := f, t := t, promo := if white then WKNIGHT else BKNIGHT }
          else none
        else none
    | _, _ => none
  (match s with
   | [c0, c1, c2, c3] => mk c0 c1 c2 c3 none
   | [c0, c1, c2, c3, c4] => mk c0 c1 c2 c3 (some c4)
   | _ => none).filter fun m => !m.isEmpty

end Chess
