import TexelVerif.Chess.Geometry
import TexelVerif.PosImpl.Bits
/-!
# Executable model of the algorithms of `MoveGen` (lib/texellib/moveGen.hpp, moveGen.cpp)

This file models *how Texel computes*, not what it should compute: 64-bit bitboards (`BitVec 64`) derived from
the board, shifts and file/row masks for pawns, attack sets of sliders by a ray walk over the *occupancy
bitboard*, `while (m != 0) extractSquare(m)` loops as an ascending walk over the set bits, move lists in
generation order.  The theorems that these algorithms compute the moves of the specification are in
`TexelGenRay`, `TexelGenAtk`, `TexelGenLegal`, `TexelGenPseudo` and collected in `Props/C01.lean`.

Correspondence with the C++ (checked differentially on every generated position, in generation order):
* `pcBB`, `colorBB`, `occBB`      `Position::pieceTypeBB / colorBB / occupiedBB` (kept equal to the from-scratch
                                   bitboards of the board by C02 `Inv`)
* `rookAttacks`, `bishopAttacks`   `BitBoard::rookAttacks / bishopAttacks` (magic / PEXT tables; compared with this
                                   ray walk for every subset of the inner mask, lifted to all occupancies by
                                   `rookAttacks_inner` / `bishopAttacks_inner`)
* `knightAttacks` … `bPawnAttacks` the 64-entry tables (compared exhaustively)
* `squaresOf`                      `while (mask != 0) { sq = extractSquare(mask); … }`
* `sqAttacked`, `inCheck`          moveGen.hpp
* `pseudoLegalMoves`               moveGen.cpp:48-141
* `removeIllegal`, `isLegal`       moveGen.cpp:574-659; `makeMove(B)` + `inCheck` + `unMakeMove(B)` is `inCheckAfter`
                                   (the board after a move is `Chess.apply`, C02 `makeMove_refines`)
-/
namespace Chess.Texel
open PosImpl (BB bit bbOf)

/-! ## bitboards -/

def tst (m : BB) (s : Sq) : Bool := m.getLsbD s.val
def sqBit (s : Sq) : BB := bit s.val
/-- bitboard of a predicate on squares -/
def bbSq (f : Sq → Bool) : BB := bbOf fun n => if h : n < 64 then f ⟨n, h⟩ else false
/-- `while (m != 0) { sq = extractSquare(m); … }` visits the set bits in ascending order -/
def squaresOf (m : BB) : List Sq := allSq.filter (tst m)

/-- `ColorTraits<w>::KING … PAWN` for kind 1..6 -/
def pc (w : Bool) (k : UInt8) : Pc := if w then k else k + 6

def pcBB (b : Board) (p : Pc) : BB := bbSq fun s => b[s] == p
def colorBB (b : Board) (w : Bool) : BB := bbSq fun s => own w b[s]
def occBB (b : Board) : BB := colorBB b true ||| colorBB b false

def maskAToGFiles : BB := 0x7F7F7F7F7F7F7F7F#64
def maskBToHFiles : BB := 0xFEFEFEFEFEFEFEFE#64
def maskRow1 : BB := 0x00000000000000FF#64
def maskRow2 : BB := 0x000000000000FF00#64
def maskRow3 : BB := 0x0000000000FF0000#64
def maskRow6 : BB := 0x0000FF0000000000#64
def maskRow7 : BB := 0x00FF000000000000#64
def maskRow8 : BB := 0xFF00000000000000#64
def maskRow1Row8 : BB := 0xFF000000000000FF#64

/-! ## attack sets -/

/-- squares seen from (x, y) walking in direction (dx, dy) over occupancy `occ`: every square up to and
    including the first occupied one -/
def rayBB (occ : BB) (dx dy : Int) : Nat → Int → Int → BB
  | 0, _, _ => 0
  | n + 1, x, y =>
    match mkSq? (x + dx) (y + dy) with
    | none => 0
    | some q => if tst occ q then sqBit q else sqBit q ||| rayBB occ dx dy n (x + dx) (y + dy)

def ray (occ : BB) (s : Sq) (dx dy : Int) : BB := rayBB occ dx dy 7 s.x s.y

def rookAttacks (s : Sq) (occ : BB) : BB :=
  ray occ s 1 0 ||| ray occ s (-1) 0 ||| ray occ s 0 1 ||| ray occ s 0 (-1)
def bishopAttacks (s : Sq) (occ : BB) : BB :=
  ray occ s 1 1 ||| ray occ s 1 (-1) ||| ray occ s (-1) 1 ||| ray occ s (-1) (-1)

def knightGeom (s t : Sq) : Bool :=
  let d := dxy s t
  (d.1.natAbs == 1 && d.2.natAbs == 2) || (d.1.natAbs == 2 && d.2.natAbs == 1)
def kingGeom (s t : Sq) : Bool :=
  let d := dxy s t
  (d.1.natAbs ≤ 1 && d.2.natAbs ≤ 1) && !(d.1 == 0 && d.2 == 0)
/-- a pawn of colour `w` on `s` attacks `t` -/
def pawnGeom (w : Bool) (s t : Sq) : Bool :=
  let d := dxy s t
  d.1.natAbs == 1 && d.2 == (if w then 1 else -1)

def knightAttacks (s : Sq) : BB := bbSq (knightGeom s)
def kingAttacks (s : Sq) : BB := bbSq (kingGeom s)
def wPawnAttacks (s : Sq) : BB := bbSq (pawnGeom true s)
def bPawnAttacks (s : Sq) : BB := bbSq (pawnGeom false s)

/-- the relevant-occupancy masks `rMasks[sq]` / `bMasks[sq]`: ray squares except the last one of each ray -/
def innerRay (s : Sq) (dx dy : Int) : BB :=
  bbSq fun t => tst (ray 0 s dx dy) t && (mkSq? ((t.x : Int) + dx) ((t.y : Int) + dy)).isSome
def rookInner (s : Sq) : BB := innerRay s 1 0 ||| innerRay s (-1) 0 ||| innerRay s 0 1 ||| innerRay s 0 (-1)
def bishopInner (s : Sq) : BB := innerRay s 1 1 ||| innerRay s 1 (-1) ||| innerRay s (-1) 1 ||| innerRay s (-1) (-1)

/-! ## `sqAttacked`, `inCheck` (moveGen.hpp) -/

/-- `MoveGen::sqAttacked<w>(pos, sq, occupied)`: is `sq` attacked by the side `!w` -/
def sqAttacked (b : Board) (w : Bool) (sq : Sq) (occ : BB) : Bool :=
  let o := !w
  (knightAttacks sq &&& pcBB b (pc o 5)) != 0 ||
  (kingAttacks sq &&& pcBB b (pc o 1)) != 0 ||
  ((if w then wPawnAttacks sq else bPawnAttacks sq) &&& pcBB b (pc o 6)) != 0 ||
  (bishopAttacks sq occ &&& (pcBB b (pc o 4) ||| pcBB b (pc o 2))) != 0 ||
  (rookAttacks sq occ &&& (pcBB b (pc o 3) ||| pcBB b (pc o 2))) != 0

/-- `MoveGen::inCheck` with the king square given -/
def inCheckK (b : Board) (w : Bool) (k : Sq) : Bool := sqAttacked b w k (occBB b)

/-- `MoveGen::inCheck`: `getKingSq` is the (first) square holding the king (C02 `kingSq_inv`) -/
def inCheck (b : Board) (w : Bool) : Bool :=
  match kingSq b w with
  | some k => inCheckK b w k
  | none => false

/-! ## move lists -/

/-- `Square + delta` (C++ `Square` is an unchecked int; all uses are shown to stay on the board) -/
def sqOff (s : Sq) (d : Int) : Sq := ⟨(((s.val : Int) + d) % 64).toNat, by omega⟩

def addMovesByMask (sq0 : Sq) (mask : BB) : List Mv :=
  (squaresOf mask).map fun t => { f := sq0, t := t, promo := 0 }

def addPawnMovesByMask (w : Bool) (mask : BB) (delta : Int) (allPromotions : Bool) : List Mv :=
  let promMask := mask &&& maskRow1Row8
  let mask := mask &&& ~~~promMask
  ((squaresOf promMask).flatMap fun sq =>
      let sq0 := sqOff sq delta
      [{ f := sq0, t := sq, promo := pc w 2 }, { f := sq0, t := sq, promo := pc w 5 }] ++
      (if allPromotions then [{ f := sq0, t := sq, promo := pc w 3 }, { f := sq0, t := sq, promo := pc w 4 }] else [])) ++
  ((squaresOf mask).map fun sq => { f := sqOff sq delta, t := sq, promo := 0 })

def addPawnDoubleMovesByMask (mask : BB) (delta : Int) : List Mv :=
  (squaresOf mask).map fun sq => { f := sqOff sq delta, t := sq, promo := 0 }

/-- one piece-type loop: for every piece of kind `k`, `addMovesByMask(sq, att(sq) & targets)` -/
def pieceMoves (b : Board) (w : Bool) (k : UInt8) (att : Sq → BB) (targets : Sq → BB) : List Mv :=
  (squaresOf (pcBB b (pc w k))).flatMap fun sq => addMovesByMask sq (att sq &&& targets sq)

def epMask (p : Pos) : BB := match p.ep with | some e => sqBit e | none => 0

/-- the castling block shared by `pseudoLegalMoves` and `pseudoLegalCapturesAndChecks` -/
def castleMoves (p : Pos) (k : Sq) : List Mv :=
  let w := p.wtm
  let occ := occBB p.b
  let k0 : Sq := if w then sq 4 else sq 60
  if k == k0 then
    let ooSq : BB := if w then sqBit (sq 5) ||| sqBit (sq 6) else sqBit (sq 61) ||| sqBit (sq 62)
    let oooSq : BB := if w then sqBit (sq 1) ||| sqBit (sq 2) ||| sqBit (sq 3) else sqBit (sq 57) ||| sqBit (sq 58) ||| sqBit (sq 59)
    let hCastle : Nat := if w then 1 else 3
    let aCastle : Nat := if w then 0 else 2
    (if (p.castle &&& ((1 : UInt8) <<< hCastle.toUInt8)) != 0 && (ooSq &&& occ) == 0 &&
        p.b[sqOff k0 3] == pc w 3 && !sqAttacked p.b w k0 occ && !sqAttacked p.b w (sqOff k0 1) occ
     then [{ f := k0, t := sqOff k0 2, promo := 0 }] else []) ++
    (if (p.castle &&& ((1 : UInt8) <<< aCastle.toUInt8)) != 0 && (oooSq &&& occ) == 0 &&
        p.b[sqOff k0 (-4)] == pc w 3 && !sqAttacked p.b w k0 occ && !sqAttacked p.b w (sqOff k0 (-1)) occ
     then [{ f := k0, t := sqOff k0 (-2), promo := 0 }] else [])
  else []

/-- the pawn block of `pseudoLegalMoves` -/
def pawnMoves (p : Pos) : List Mv :=
  let b := p.b
  let w := p.wtm
  let occ := occBB b
  let pawns := pcBB b (pc w 6)
  let capT := colorBB b (!w) ||| epMask p
  if w then
    let m := (pawns <<< 8) &&& ~~~occ
    addPawnMovesByMask w m (-8) true ++
    addPawnDoubleMovesByMask (((m &&& maskRow3) <<< 8) &&& ~~~occ) (-16) ++
    addPawnMovesByMask w ((pawns <<< 7) &&& maskAToGFiles &&& capT) (-7) true ++
    addPawnMovesByMask w ((pawns <<< 9) &&& maskBToHFiles &&& capT) (-9) true
  else
    let m := (pawns >>> 8) &&& ~~~occ
    addPawnMovesByMask w m 8 true ++
    addPawnDoubleMovesByMask (((m &&& maskRow6) >>> 8) &&& ~~~occ) 16 ++
    addPawnMovesByMask w ((pawns >>> 9) &&& maskAToGFiles &&& capT) 9 true ++
    addPawnMovesByMask w ((pawns >>> 7) &&& maskBToHFiles &&& capT) 7 true

/-- `MoveGen::pseudoLegalMoves<wtm>` (moveGen.cpp:48-141), `k` = `pos.getKingSq(wtm)` -/
def pseudoLegalMoves (p : Pos) (k : Sq) : List Mv :=
  let b := p.b
  let w := p.wtm
  let occ := occBB b
  let notOwn : Sq → BB := fun _ => ~~~colorBB b w
  pieceMoves b w 2 (fun sq => rookAttacks sq occ ||| bishopAttacks sq occ) notOwn ++
  pieceMoves b w 3 (fun sq => rookAttacks sq occ) notOwn ++
  pieceMoves b w 4 (fun sq => bishopAttacks sq occ) notOwn ++
  addMovesByMask k (kingAttacks k &&& ~~~colorBB b w) ++
  castleMoves p k ++
  pieceMoves b w 5 knightAttacks notOwn ++
  pawnMoves p

/-! ## legality filter -/

/-- `makeMove(B)(m); inCheck (for the mover); unMakeMove(B)(m)` -/
def inCheckAfter (p : Pos) (m : Mv) : Bool := inCheck (apply p m).b p.wtm

/-- `MoveGen::isLegal` (moveGen.cpp:621-659), `k` = `pos.getKingSq(pos.isWhiteMove())` -/
def isLegal (p : Pos) (k : Sq) (m : Mv) (isInCheck : Bool) : Bool :=
  let b := p.b
  let w := p.wtm
  if isInCheck then
    if m.f != k && p.ep != some m.t &&
       ((rookAttacks k (occBB b) &&& sqBit m.t) == 0 &&
        (bishopAttacks k (occBB b) &&& sqBit m.t) == 0 &&
        (knightAttacks k &&& pcBB b (pc (!w) 5) &&& sqBit m.t) == 0)
    then false
    else !inCheckAfter p m
  else if m.f == k then
    !sqAttacked b w m.t (occBB b &&& ~~~sqBit m.f)
  else if p.ep != some m.t &&
      (((rookAttacks k (occBB b) &&& sqBit m.f) == 0 && (bishopAttacks k (occBB b) &&& sqBit m.f) == 0) ||
       direction k m.f == direction k m.t)
  then true
  else !inCheckAfter p m

/-- `MoveGen::removeIllegal` (moveGen.cpp:574-618); the in-place compaction is an order-preserving filter -/
def removeIllegal (p : Pos) (k : Sq) (l : List Mv) : List Mv :=
  let b := p.b
  let w := p.wtm
  let occ := occBB b
  let isInCheck := inCheckK b w k
  let kingAtks := rookAttacks k occ ||| bishopAttacks k occ
  if isInCheck then
    let kingAtks := kingAtks ||| pcBB b (pc (!w) 5)
    l.filter fun m =>
      if m.f != k && (kingAtks &&& sqBit m.t) == 0 && p.ep != some m.t then false else !inCheckAfter p m
  else
    l.filter fun m =>
      if m.f != k && (kingAtks &&& sqBit m.f) == 0 && p.ep != some m.t then true else !inCheckAfter p m

/-- what the engine treats as the legal moves: `pseudoLegalMoves` followed by `removeIllegal` -/
def legalMoves (p : Pos) (k : Sq) : List Mv := removeIllegal p k (pseudoLegalMoves p k)

/-- the hypotheses of the generator theorems (`GenWF` in `TexelGenPseudo.lean`) as a Boolean, evaluated by the driver on
    every tested position: piece codes 0..12, the mover's king on `k` and nowhere else, the en-passant square empty -/
def genWFb (p : Pos) (k : Sq) : Bool :=
  (allSq.all fun s => p.b[s] ≤ 12) &&
  (p.b[k] == (if p.wtm then WKING else BKING)) &&
  (allSq.all fun s => !(p.b[s] == (if p.wtm then WKING else BKING)) || s == k) &&
  (match p.ep with | some e => p.b[e] == 0 | none => true)

/-- extra hypothesis of `evasions_complete`: no enemy king next to the mover's king -/
def kingsApartB (p : Pos) (k : Sq) : Bool :=
  allSq.all fun q => !(p.b[q] == pc (!p.wtm) 1) || !kingGeom k q

end Chess.Texel
