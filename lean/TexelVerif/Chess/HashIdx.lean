import TexelVerif.Chess.Fen
/-!
Index into `Position::moveCntKeys[101]` used by `historyHash()` and `bookHash()` (position.hpp:303-322), and the
reader's counter handling before the C17 repair (for the witness theorem).
-/
namespace Chess

/-- `bookHash`: `moveCntKeys[std::min(halfMoveClock, 100)]` -/
def bookIdx (hmc : Int) : Int := min hmc 100

/-- `historyHash`: `tb` is the test `nPieces() <= TBProbeData::maxPieces`; `none` = the table is not read -/
def histIdx (tb : Bool) (hmc : Int) : Option Int :=
  if tb then some (min hmc 100)
  else if hmc ≥ 40 then (if hmc < 80 then some (hmc / 10) else some (min hmc 100))
  else none

/-- the counter field as the reader stored it before the repair: the `std::stoi` value as is -/
def counterOfWordOld (w : List Char) (dflt : Int) : Int := (stoi w).getD dflt

end Chess
