import TexelVerif.Chess.TexelGenCC3
/-!
`cc_complete`: `MoveGen::pseudoLegalCapturesAndChecks` omits no pseudo-legal move of its class — captures (en passant
included), promotions, and moves that give check (decided through `givesCheck_eq`); promotion piece queen or knight.
-/
namespace Chess.Texel
open PosImpl (BB getP getP_eq)

theorem tst_maskRow7 : ∀ t : Sq, tst maskRow7 t = decide (t.val / 8 = 6) := by decide +kernel
theorem tst_maskRow2 : ∀ t : Sq, tst maskRow2 t = decide (t.val / 8 = 1) := by decide +kernel

/-- a pawn captures diagonally -/
theorem pawn_capture_diag (p : Pos) (m : Mv) (hp : pseudo p m = true) (h6 : kind p.b[m.f] = 6) (hne : p.b[m.t] ≠ 0) :
    m.f.x ≠ m.t.x := by
  unfold pseudo at hp
  simp only [Pos.at, h6, Bool.and_eq_true, Bool.or_eq_true, beq_iff_eq, bne_iff_ne, ne_eq, dxy] at hp
  obtain ⟨_, _, hmv⟩ := hp
  rcases hmv with (⟨_, h0⟩ | ⟨⟨_, h0⟩, _⟩) | ⟨⟨a, _⟩, _⟩
  · exact absurd h0 hne
  · exact absurd h0 hne
  · omega

/-- a promoting pawn starts on the seventh rank -/
theorem promo_row (p : Pos) (m : Mv) (hp : pseudo p m = true) (h0 : m.promo ≠ 0) :
    tst (if p.wtm then maskRow7 else maskRow2) m.f = true := by
  have h6 := (promo_kind p m hp h0).2.2
  unfold pseudo at hp
  simp only [Pos.at, h6, Bool.and_eq_true, Bool.or_eq_true, beq_iff_eq, bne_iff_ne, ne_eq, dxy, decide_eq_true_eq] at hp
  obtain ⟨_, hpr, hmv⟩ := hp
  unfold promoOk at hpr
  have hfy := Sq.y_lt m.f; have hty := Sq.y_lt m.t
  cases hw : p.wtm
  · rw [hw] at hpr hmv
    simp only [Bool.false_eq_true, if_false] at hpr hmv ⊢
    have ht0 : m.t.y = 0 := by
      apply Classical.byContradiction
      intro hn
      have : (m.t.y == 0) = false := by simpa using hn
      rw [this] at hpr
      simp only [Bool.false_eq_true, if_false, beq_iff_eq] at hpr
      exact h0 hpr
    rw [tst_maskRow2]
    simp only [decide_eq_true_eq]
    show m.f.y = 1
    rcases hmv with (⟨⟨_, a⟩, _⟩ | ⟨⟨⟨⟨_, a⟩, c⟩, _⟩, _⟩) | ⟨⟨_, a⟩, _⟩ <;> omega
  · rw [hw] at hpr hmv
    simp only [if_true] at hpr hmv ⊢
    have ht7 : m.t.y = 7 := by
      apply Classical.byContradiction
      intro hn
      have : (m.t.y == 7) = false := by simpa using hn
      rw [this] at hpr
      simp only [Bool.false_eq_true, if_false, beq_iff_eq] at hpr
      exact h0 hpr
    rw [tst_maskRow7]
    simp only [decide_eq_true_eq]
    show m.f.y = 6
    rcases hmv with (⟨⟨_, a⟩, _⟩ | ⟨⟨⟨⟨_, a⟩, c⟩, _⟩, _⟩) | ⟨⟨_, a⟩, _⟩ <;> omega

/-- a square from which a rook-wise (bishop-wise) mover sees the king lies in `kRookAtk` (`kBishAtk`) -/
theorem seg_in_rookAtk (b : Board) (hv : ValidB b) (ok t : Sq) (dx dy : Int) (n : Nat) (hd : RookD dx dy)
    (hs : Seg b t dx dy n ok) : tst (rookAttacks ok (occBB b)) t = true :=
  (tst_rook_iff ok t _).2 ⟨-dx, -dy, rookD_neg hd, (tst_ray_seg b hv ok t _ _ (rookD_neg hd).isDir).2 ⟨n, hs.rev⟩⟩

theorem seg_in_bishAtk (b : Board) (hv : ValidB b) (ok t : Sq) (dx dy : Int) (n : Nat) (hd : BishD dx dy)
    (hs : Seg b t dx dy n ok) : tst (bishopAttacks ok (occBB b)) t = true :=
  (tst_bishop_iff ok t _).2 ⟨-dx, -dy, bishD_neg hd, (tst_ray_seg b hv ok t _ _ (bishD_neg hd).isDir).2 ⟨n, hs.rev⟩⟩

/-- **completeness of `pseudoLegalCapturesAndChecks`**: every pseudo-legal move that captures (en passant included),
    promotes, or gives check is generated, provided its promotion piece (if any) is a queen or a knight -/
theorem cc_complete (p : Pos) (k ok : Sq) (h1 : GenWF p k) (H : GcWF p ok) (m : Mv) (hp : pseudo p m = true)
    (hkk : kind p.b[m.f] = 1 → kingGeom ok m.t = false) (hq : qnPromo m = true)
    (hc : isCaptureMv p m = true ∨ m.promo ≠ 0 ∨ givesCheckSpec p m = true) :
    m ∈ pseudoLegalCapturesAndChecks p k ok := by
  rw [mem_cc_iff p k ok h1]
  refine ⟨hp, ?_⟩
  have hv := H.valid
  have hK := H.oking
  have hown := pseudo_own_f p m hp
  -- the reasons for being in the class, in terms of the board before the move
  have hcases : tst (ccDiscovered p.b p.wtm ok) m.f = true ∨ own (!p.wtm) p.b[m.t] = true ∨ m.promo ≠ 0 ∨
      (kind p.b[m.f] = 6 ∧ m.f.x ≠ m.t.x) ∨ (m.promo = 0 ∧ gcDirect p.b p.wtm ok (kind p.b[m.f]) m.t = true) ∨
      (kind p.b[m.f] = 1 ∧ (m.t.val = m.f.val + 2 ∨ m.t.val + 2 = m.f.val)) := by
    by_cases h0 : m.promo = 0
    · have hmk : movedKind p m = kind p.b[m.f] := by
        unfold movedKind; rw [h0]; simp only [beq_self_eq_true, if_true]
      rcases hc with hc | hc | hc
      · unfold isCaptureMv at hc
        simp only [Pos.at, Bool.or_eq_true, Bool.and_eq_true, bne_iff_ne, ne_eq, beq_iff_eq] at hc
        rcases hc with hc | ⟨⟨a, _⟩, c⟩
        · exact Or.inr (Or.inl (enemy_of_capture p hv m hp hc))
        · exact Or.inr (Or.inr (Or.inr (Or.inl ⟨a, c⟩)))
      · exact absurd h0 hc
      · rw [← givesCheck_eq p ok H m hp hkk, givesCheck_split, hmk] at hc
        simp only [Bool.or_eq_true] at hc
        rcases hc with ((hc | hc) | hc) | hc
        · exact Or.inr (Or.inr (Or.inr (Or.inr (Or.inl ⟨h0, hc⟩))))
        · exact Or.inl (disc_mem p.b hv p.wtm ok hK m.f m.t hc)
        · exact absurd h0 ((gcPromo_iff _ _ _ hK _ _ _ _).1 hc).1
        · by_cases hk1 : kind p.b[m.f] = 1
          · rw [hk1] at hc
            simp only [beq_self_eq_true, if_true] at hc
            refine Or.inr (Or.inr (Or.inr (Or.inr (Or.inr ⟨hk1, ?_⟩))))
            apply Classical.byContradiction
            intro hn
            rw [gcCastle_none _ _ _ _ (fun e => hn (Or.inl e)) (fun e => hn (Or.inr e))] at hc
            cases hc
          · rw [if_neg (by simpa using hk1)] at hc
            by_cases hk6 : kind p.b[m.f] = 6
            · rw [hk6] at hc
              simp only [beq_self_eq_true, if_true] at hc
              refine Or.inr (Or.inr (Or.inr (Or.inl ⟨hk6, ?_⟩)))
              intro e
              rw [gcEp_off _ _ _ _ _ (Or.inr e.symm)] at hc
              cases hc
            · rw [if_neg (by simpa using hk6)] at hc; cases hc
    · exact Or.inr (Or.inr (Or.inl h0))
  have hnp : kind p.b[m.f] ≠ 6 → m.promo = 0 := fun h => PosImpl.pseudo_other p m hp (by rw [getP_sq]; exact h)
  unfold CCGen
  simp only
  rcases kind_of_own _ _ hown with k1 | k2 | k3 | k4 | k5 | k6
  · -- king
    refine Or.inr (Or.inr (Or.inr (Or.inr (Or.inl ⟨k1, ?_⟩))))
    rcases hcases with h | h | h | ⟨h, _⟩ | ⟨_, h⟩ | ⟨_, h⟩
    · exact Or.inl h
    · exact Or.inr (Or.inl h)
    · exact absurd (hnp (by rw [k1]; decide)) h
    · rw [k1] at h; exact absurd h (by decide)
    · exfalso
      rw [k1] at h
      rcases (gcDirect_iff _ _ _ hK _ _).1 h with ⟨h, _⟩ | ⟨h, _⟩ | ⟨h, _⟩ | ⟨h, _⟩
      · rcases h with h | h <;> exact absurd h (by decide)
      · rcases h with h | h <;> exact absurd h (by decide)
      · exact absurd h (by decide)
      · exact absurd h (by decide)
    · exact Or.inr (Or.inr h)
  · -- queen
    refine Or.inl ⟨k2, ?_⟩
    rcases hcases with h | h | h | ⟨h, _⟩ | ⟨_, h⟩ | ⟨h, _⟩
    · exact Or.inl h
    · exact Or.inr (Or.inl h)
    · exact absurd (hnp (by rw [k2]; decide)) h
    · rw [k2] at h; exact absurd h (by decide)
    · rw [k2] at h
      rcases (gcDirect_iff _ _ _ hK _ _).1 h with ⟨_, dx, dy, n, hd, hs⟩ | ⟨_, dx, dy, n, hd, hs⟩ | ⟨h, _⟩ | ⟨h, _⟩
      · exact Or.inr (Or.inr (Or.inl (seg_in_rookAtk p.b hv ok m.t dx dy n hd hs)))
      · exact Or.inr (Or.inr (Or.inr (seg_in_bishAtk p.b hv ok m.t dx dy n hd hs)))
      · exact absurd h (by decide)
      · exact absurd h (by decide)
    · rw [k2] at h; exact absurd h (by decide)
  · -- rook
    refine Or.inr (Or.inl ⟨k3, ?_⟩)
    rcases hcases with h | h | h | ⟨h, _⟩ | ⟨_, h⟩ | ⟨h, _⟩
    · exact Or.inl h
    · exact Or.inr (Or.inl h)
    · exact absurd (hnp (by rw [k3]; decide)) h
    · rw [k3] at h; exact absurd h (by decide)
    · rw [k3] at h
      rcases (gcDirect_iff _ _ _ hK _ _).1 h with ⟨_, dx, dy, n, hd, hs⟩ | ⟨h, _⟩ | ⟨h, _⟩ | ⟨h, _⟩
      · exact Or.inr (Or.inr (seg_in_rookAtk p.b hv ok m.t dx dy n hd hs))
      · rcases h with h | h <;> exact absurd h (by decide)
      · exact absurd h (by decide)
      · exact absurd h (by decide)
    · rw [k3] at h; exact absurd h (by decide)
  · -- bishop
    refine Or.inr (Or.inr (Or.inl ⟨k4, ?_⟩))
    rcases hcases with h | h | h | ⟨h, _⟩ | ⟨_, h⟩ | ⟨h, _⟩
    · exact Or.inl h
    · exact Or.inr (Or.inl h)
    · exact absurd (hnp (by rw [k4]; decide)) h
    · rw [k4] at h; exact absurd h (by decide)
    · rw [k4] at h
      rcases (gcDirect_iff _ _ _ hK _ _).1 h with ⟨h, _⟩ | ⟨_, dx, dy, n, hd, hs⟩ | ⟨h, _⟩ | ⟨h, _⟩
      · rcases h with h | h <;> exact absurd h (by decide)
      · exact Or.inr (Or.inr (seg_in_bishAtk p.b hv ok m.t dx dy n hd hs))
      · exact absurd h (by decide)
      · exact absurd h (by decide)
    · rw [k4] at h; exact absurd h (by decide)
  · -- knight
    refine Or.inr (Or.inr (Or.inr (Or.inl ⟨k5, ?_⟩)))
    rcases hcases with h | h | h | ⟨h, _⟩ | ⟨_, h⟩ | ⟨h, _⟩
    · exact Or.inl h
    · exact Or.inr (Or.inl h)
    · exact absurd (hnp (by rw [k5]; decide)) h
    · rw [k5] at h; exact absurd h (by decide)
    · rw [k5] at h
      rcases (gcDirect_iff _ _ _ hK _ _).1 h with ⟨h, _⟩ | ⟨h, _⟩ | ⟨h, _⟩ | ⟨_, hg⟩
      · rcases h with h | h <;> exact absurd h (by decide)
      · rcases h with h | h <;> exact absurd h (by decide)
      · exact absurd h (by decide)
      · refine Or.inr (Or.inr ?_)
        rw [knightAttacks, tst_bbSq, knightGeom_swap]; exact hg
    · rw [k5] at h; exact absurd h (by decide)
  · -- pawn
    refine Or.inr (Or.inr (Or.inr (Or.inr (Or.inr ⟨k6, hq, ?_⟩))))
    rcases hcases with h | h | h | ⟨_, h⟩ | ⟨_, h⟩ | ⟨h, _⟩
    · exact Or.inr (Or.inl (by rw [tst_or, h]; rfl))
    · exact Or.inl (pawn_capture_diag p m hp k6 (ne_zero_of_own _ _ h))
    · exact Or.inr (Or.inl (by rw [tst_or, promo_row p m hp h]; simp))
    · exact Or.inl h
    · rw [k6] at h
      rcases (gcDirect_iff _ _ _ hK _ _).1 h with ⟨h, _⟩ | ⟨h, _⟩ | ⟨_, hg⟩ | ⟨h, _⟩
      · rcases h with h | h <;> exact absurd h (by decide)
      · rcases h with h | h <;> exact absurd h (by decide)
      · refine Or.inr (Or.inr ?_)
        cases hw : p.wtm
        · rw [hw] at hg
          simp only [Bool.false_eq_true, if_false]
          rw [wPawnAttacks, tst_bbSq]; exact (pawnGeom_swap false m.t ok).trans hg
        · rw [hw] at hg
          simp only [if_true]
          rw [bPawnAttacks, tst_bbSq]; exact (pawnGeom_swap true m.t ok).trans hg
      · exact absurd h (by decide)
    · rw [k6] at h; exact absurd h (by decide)

end Chess.Texel
