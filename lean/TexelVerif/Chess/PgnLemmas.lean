import TexelVerif.Chess.Pgn
/-! The PGN scanner makes progress on every input and never produces an empty symbol (property C17). -/
namespace Chess.Pgn

theorem splitAtFirst_length (p : Char → Bool) (cs body rest : List Char) (h : splitAtFirst p cs = some (body, rest)) :
    rest.length < cs.length := by
  induction cs generalizing body rest with
  | nil => cases h
  | cons c cs ih =>
    unfold splitAtFirst at h
    split at h
    · cases h; simp
    · cases hr : splitAtFirst p cs with
      | none => rw [hr] at h; cases h
      | some ab =>
        rw [hr] at h
        obtain ⟨a, b⟩ := ab
        simp only [Option.map_some, Option.some.injEq, Prod.mk.injEq] at h
        have := ih a b hr
        rw [← h.2]; simp only [List.length_cons]; omega

theorem stringBody_length (cs : List Char) (esc : Bool) (body rest : List Char) (h : stringBody cs esc = some (body, rest)) :
    rest.length < cs.length := by
  induction cs generalizing esc body rest with
  | nil => cases esc <;> cases h
  | cons c cs ih =>
    have step : ∀ e a b, stringBody cs e = some (a, b) → b.length < (c :: cs).length := by
      intro e a b hab; have := ih e a b hab; simp only [List.length_cons]; omega
    cases esc
    · unfold stringBody at h
      split at h
      · cases h; simp
      · split at h
        · exact step _ _ _ h
        · cases hr : stringBody cs false with
          | none => rw [hr] at h; cases h
          | some ab =>
            rw [hr] at h; obtain ⟨a, b⟩ := ab
            simp only [Option.map_some, Option.some.injEq, Prod.mk.injEq] at h
            rw [← h.2]; exact step _ _ _ hr
    · unfold stringBody at h
      cases hr : stringBody cs false with
      | none => rw [hr] at h; cases h
      | some ab =>
        rw [hr] at h; obtain ⟨a, b⟩ := ab
        simp only [Option.map_some, Option.some.injEq, Prod.mk.injEq] at h
        rw [← h.2]; exact step _ _ _ hr

theorem takeRun_length (p : Char → Bool) (cs : List Char) : (takeRun p cs).2.length ≤ cs.length := by
  induction cs with
  | nil => simp [takeRun]
  | cons c cs ih =>
    unfold takeRun
    split
    · simp only [List.length_cons]; omega
    · simp

end Chess.Pgn

namespace Chess.Pgn

theorem tokAfter_progress (c : Char) (cs : List Char) :
    ((tokAfter c cs).1.ty = .eof ∧ (tokAfter c cs).2 = []) ∨ (tokAfter c cs).2.length ≤ cs.length := by
  unfold tokAfter
  cases armOf c <;> simp only
  all_goals first
    | (right; exact Nat.le_refl _)
    | skip
  · split
    · right; exact Nat.le_of_lt (splitAtFirst_length _ _ _ _ ‹_›)
    · left; exact ⟨rfl, rfl⟩
  · split
    · right; exact Nat.le_of_lt (splitAtFirst_length _ _ _ _ ‹_›)
    · left; exact ⟨rfl, rfl⟩
  · split
    · right; exact Nat.le_of_lt (stringBody_length _ _ _ _ ‹_›)
    · left; exact ⟨rfl, rfl⟩
  · have := takeRun_length isDigitC cs
    split
    · left; exact ⟨rfl, rfl⟩
    · rename_i heq; rw [heq] at this; right; exact this
  · have := takeRun_length (fun d => !(isSpaceC d || symTerm.contains d)) cs
    split
    · left; exact ⟨rfl, rfl⟩
    · rename_i heq; rw [heq] at this; right; exact this

/-- **scanner progress**: unless it returns END (with nothing left), `nextToken` consumes at least one character -/
theorem nextTok_progress (cs : List Char) :
    ((nextTok cs).1.ty = .eof ∧ (nextTok cs).2 = []) ∨ (nextTok cs).2.length < cs.length := by
  induction cs with
  | nil => left; exact ⟨rfl, rfl⟩
  | cons c cs ih =>
    unfold nextTok
    split
    · rcases ih with h | h
      · exact Or.inl h
      · right; simp only [List.length_cons]; omega
    · rcases tokAfter_progress c cs with h | h
      · exact Or.inl h
      · right; simp only [List.length_cons]; omega

/-- a SYMBOL (or INTEGER) token is never empty — what makes `tok.token[tok.token.length() - 1]` in `parsePgn` safe -/
theorem tokAfter_symbol_nonempty (c : Char) (cs : List Char) (h : (tokAfter c cs).1.ty = .symbol) : (tokAfter c cs).1.s ≠ [] := by
  generalize hr : tokAfter c cs = r at h ⊢
  unfold tokAfter at hr
  cases ha : armOf c <;> rw [ha] at hr <;> simp only at hr
  all_goals first | (subst hr; cases h) | skip
  all_goals (split at hr <;> subst hr <;> first | cases h | skip)
  exact List.cons_ne_nil _ _

theorem nextTok_symbol_nonempty (cs : List Char) (h : (nextTok cs).1.ty = .symbol) : (nextTok cs).1.s ≠ [] := by
  induction cs with
  | nil => cases h
  | cons c cs ih =>
    unfold nextTok at h ⊢
    split
    · rename_i hc; rw [if_pos hc] at h; exact ih h
    · rename_i hc; rw [if_neg hc] at h; exact tokAfter_symbol_nonempty c cs h

end Chess.Pgn
