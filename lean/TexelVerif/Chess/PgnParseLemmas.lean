import TexelVerif.Chess.PgnLemmas
/-!
The PGN parser model never fails a checked access (property C17): with parent indices in range and no empty SYMBOL on
the put-back stack — both invariants of `parsePgn` itself — `st.arena[node]`, `tok.token[len-1]` and
`tok.token[movLen-1]` are always in range.
-/
namespace Chess.Pgn

/-- every parent index points into the arena -/
def WF (a : Array NodeR) : Prop := ∀ i (h : i < a.size) (par : Nat), a[i].parent = some par → par < a.size

/-- no empty SYMBOL token on the put-back stack (only NAG tokens are ever put back) -/
def SavedOK (sc : Sc) : Prop := ∀ t ∈ sc.saved, t.ty = .symbol → t.s ≠ []

theorem addChild_spec (st : PState) (pos : Pos) (node : Nat) (pending : NodeR) (hwf : WF st.arena) (hn : node < st.arena.size) :
    WF (addChild st pos node pending).1.arena ∧ (addChild st pos node pending).1.arena.size = st.arena.size + 1 ∧
    (addChild st pos node pending).2.2 = st.arena.size ∧ (addChild st pos node pending).1.sc = st.sc := by
  unfold addChild
  simp only
  refine ⟨?_, ?_, ?_, ?_⟩
  rotate_left
  · simp [Array.size_modify, Array.size_push]
  · trivial
  · trivial
  intro i hi par hpar
  simp only [Array.size_modify, Array.size_push] at hi ⊢
  rw [Array.getElem_modify] at hpar
  have key : ((st.arena.push { pending with parent := some node, posBefore := some pos })[i]'(by simp [Array.size_push]; omega)).parent = some par := by
    split at hpar
    · exact hpar
    · exact hpar
  rw [Array.getElem_push] at key
  split at key
  · rename_i hlt
    have := hwf i hlt par key
    omega
  · simp only [Option.some.injEq] at key
    omega

theorem flush_spec (st : PState) (c : Cur) (hwf : WF st.arena) (hn : c.node < st.arena.size) :
    WF (flush st c).1.arena ∧ (flush st c).2.node < (flush st c).1.arena.size ∧
    st.arena.size ≤ (flush st c).1.arena.size ∧ (flush st c).1.sc = st.sc := by
  unfold flush
  split
  · obtain ⟨h1, h2, h3, h4⟩ := addChild_spec st c.pos c.node c.pending hwf hn
    simp only
    refine ⟨h1, ?_, ?_, h4⟩
    · rw [h3, h2]; omega
    · rw [h2]; omega
  · exact ⟨hwf, hn, Nat.le_refl _, rfl⟩

theorem next_spec (sc : Sc) (h : SavedOK sc) : SavedOK sc.next.2 ∧ (sc.next.1.ty = .symbol → sc.next.1.s ≠ []) := by
  unfold Sc.next
  split
  · rename_i t r heq
    simp only
    constructor
    · intro x hx; exact h x (by rw [heq]; exact List.mem_cons_of_mem _ hx)
    · exact h t (by rw [heq]; exact List.mem_cons_self)
  · rename_i heq
    simp only
    constructor
    · intro x hx; exact h x hx
    · exact nextTok_symbol_nonempty sc.cs

theorem putBack_nag (sc : Sc) (s : List Char) (h : SavedOK sc) : SavedOK (sc.putBack { ty := .nag, s := s }) := by
  intro t ht hty
  unfold Sc.putBack at ht
  simp only [List.mem_cons] at ht
  rcases ht with rfl | ht
  · cases hty
  · exact h t ht hty

theorem annStart_ok (t : Array Char) (n : Nat) (h : n ≤ t.size) : ∃ k, annStart t n = .ok k := by
  induction n with
  | zero => exact ⟨0, rfl⟩
  | succ k ih =>
    unfold annStart
    rw [Array.getElem?_eq_getElem (by omega)]
    simp only
    split
    · exact ih (by omega)
    · exact ⟨_, rfl⟩

theorem symbolPrep_spec (tok : List Char) (sc : Sc) (hne : tok ≠ []) (h : SavedOK sc) :
    ∃ t sc', symbolPrep tok sc = .ok (t, sc') ∧ SavedOK sc' := by
  unfold symbolPrep
  have hsz : tok.toArray.size - 1 < tok.toArray.size := by
    have : 0 < tok.length := List.length_pos_iff.2 hne
    simp only [List.size_toArray]; omega
  dsimp only
  rw [Array.getElem?_eq_getElem hsz]
  dsimp only
  split
  · rename_i hann
    generalize ht : (if (tok.toArray[tok.toArray.size - 1] == '+') = true then tok.toArray.extract 0 (tok.toArray.size - 1) else tok.toArray) = t
    obtain ⟨k, hk⟩ := annStart_ok t (t.size - 1) (by omega)
    rw [hk]
    simp only
    refine ⟨_, _, rfl, ?_⟩
    split
    · exact putBack_nag sc _ h
    · exact h
  · exact ⟨_, _, rfl, h⟩

theorem skipGroup_saved (f : Nat) (sc : Sc) (level : Nat) (h : SavedOK sc) : SavedOK (skipGroup f sc level).1 := by
  induction f generalizing sc level with
  | zero => exact h
  | succ f ih =>
    unfold skipGroup
    have hn := (next_spec sc h).1
    simp only
    split
    · exact ih _ _ hn
    · split
      · exact hn
      · exact ih _ _ hn
    · exact hn
    · exact ih _ _ hn

/-- the invariant-carrying statement: no `.oob`, and an accepted result keeps the arena well-formed and no smaller -/
def Good (st : PState) (r : Except PErr PState) : Prop :=
  match r with
  | .error e => e ≠ .oob
  | .ok st' => WF st'.arena ∧ SavedOK st'.sc ∧ st.arena.size ≤ st'.arena.size

theorem Good_mono (st0 st1 : PState) (r : Except PErr PState) (h : Good st1 r) (hle : st0.arena.size ≤ st1.arena.size) :
    Good st0 r := by
  unfold Good at h ⊢
  cases r with
  | error e => exact h
  | ok st' => exact ⟨h.1, h.2.1, by simp only at h; omega⟩

theorem parsePgn_good (f : Nat) : ∀ (st : PState) (c : Cur), WF st.arena → SavedOK st.sc → c.node < st.arena.size →
    Good st (parsePgn f st c) := by
  induction f with
  | zero => intro st c _ _ _; unfold parsePgn Good; simp
  | succ f ih =>
    intro st0 c hwf hsv hn
    unfold parsePgn
    obtain ⟨hsv1, hsym⟩ := next_spec st0.sc hsv
    simp only
    -- the state after the token has been taken
    have ih' : ∀ c', c'.node < st0.arena.size → Good st0 (parsePgn f { st0 with sc := st0.sc.next.2 } c') := by
      intro c' hc'
      exact ih { st0 with sc := st0.sc.next.2 } c' hwf hsv1 hc'
    have hfin : Good st0 (.ok (flush { st0 with sc := st0.sc.next.2 } c).1) := by
      obtain ⟨h1, _, h3, h4⟩ := flush_spec { st0 with sc := st0.sc.next.2 } c hwf hn
      exact ⟨h1, by rw [h4]; exact hsv1, h3⟩
    split
    · exact ih' c hn
    · exact ih' c hn
    · -- '('
      obtain ⟨h1, h2, h3, h4⟩ := flush_spec { st0 with sc := st0.sc.next.2 } c hwf hn
      rw [Array.getElem?_eq_getElem h2]
      simp only
      have hsv2 : SavedOK (flush { st0 with sc := st0.sc.next.2 } c).1.sc := by rw [h4]; exact hsv1
      split
      · rename_i par pos2 hpar _
        have hparlt := h1 _ h2 par hpar
        have r1 := ih (flush { st0 with sc := st0.sc.next.2 } c).1 { pos := pos2, node := par } h1 hsv2 hparlt
        split
        · rename_i e he; rw [he] at r1; exact r1
        · rename_i st' he
          rw [he] at r1
          obtain ⟨w1, w2, w3⟩ := r1
          have r2 := ih st' (flush { st0 with sc := st0.sc.next.2 } c).2 w1 w2 (by omega)
          exact Good_mono _ _ _ r2 (by simp only at h3; omega)
      · have hsk := skipGroup_saved f (flush { st0 with sc := st0.sc.next.2 } c).1.sc 1 hsv2
        split
        · rename_i sc' hsc
          rw [hsc] at hsk
          exact ⟨h1, hsk, h3⟩
        · rename_i sc' hsc
          rw [hsc] at hsk
          have r2 := ih { (flush { st0 with sc := st0.sc.next.2 } c).1 with sc := sc' } (flush { st0 with sc := st0.sc.next.2 } c).2 h1 hsk h2
          exact Good_mono _ _ _ r2 (by simpa using h3)
    · -- NAG
      apply ih'
      split <;> exact hn
    · -- SYMBOL
      rename_i hty
      split
      · exact hfin
      · obtain ⟨t, sc', hp, hsc'⟩ := symbolPrep_spec st0.sc.next.1.s st0.sc.next.2 (hsym hty) hsv1
        rw [hp]
        simp only
        split
        · obtain ⟨h1, h2, h3, h4⟩ := flush_spec { st0 with sc := sc' } c hwf hn
          split
          · intro h; cases h
          · refine Good_mono _ _ _ (ih _ _ h1 (by rw [h4]; exact hsc') ?_) (by simpa using h3)
            simpa using h2
        · exact ih { st0 with sc := sc' } c hwf hsc' hn
    · -- COMMENT
      apply ih'
      split <;> exact hn
    · exact hfin

end Chess.Pgn

namespace Chess.Pgn

def TokOK (t : Tok) : Prop := t.ty = .symbol → t.s ≠ []

theorem putBack_ok (sc : Sc) (t : Tok) (h : SavedOK sc) (ht : TokOK t) : SavedOK (sc.putBack t) := by
  intro x hx hty
  unfold Sc.putBack at hx
  simp only [List.mem_cons] at hx
  rcases hx with rfl | hx
  · exact ht hty
  · exact h x hx hty

theorem nextDC_spec (f : Nat) (sc : Sc) (h : SavedOK sc) : SavedOK (sc.nextDC f).2 ∧ TokOK (sc.nextDC f).1 := by
  induction f generalizing sc with
  | zero => exact ⟨h, fun hty => by cases hty⟩
  | succ f ih =>
    unfold Sc.nextDC
    obtain ⟨h1, h2⟩ := next_spec sc h
    simp only
    split
    · exact ih _ h1
    · exact ⟨h1, h2⟩

theorem broken_spec (fuelDC : Nat) (g : Nat) (sc : Sc) (tok : Tok) (prev : TT) (v : List Char) (h : SavedOK sc) :
    SavedOK (readTags.broken fuelDC g sc tok prev v).2 := by
  induction g generalizing sc tok prev v with
  | zero => exact h
  | succ g ih =>
    unfold readTags.broken
    split
    · exact ih _ _ _ _ (nextDC_spec fuelDC sc h).1
    · exact h

theorem readTags_spec (f : Nat) (sc : Sc) (tok : Tok) (acc : List (List Char × List Char)) (h : SavedOK sc) (ht : TokOK tok) :
    SavedOK (readTags f sc tok acc).2 := by
  induction f generalizing sc tok acc with
  | zero => exact putBack_ok sc tok h ht
  | succ f ih =>
    unfold readTags
    split
    · exact putBack_ok sc tok h ht
    · simp only
      obtain ⟨a1, a2⟩ := nextDC_spec (2 * sc.cs.length + sc.saved.length + 2) sc h
      split
      · exact putBack_ok _ _ a1 a2
      · obtain ⟨b1, b2⟩ := nextDC_spec (2 * sc.cs.length + sc.saved.length + 2) _ a1
        split
        · exact putBack_ok _ _ b1 b2
        · obtain ⟨c1, c2⟩ := nextDC_spec (2 * sc.cs.length + sc.saved.length + 2) _ b1
          split
          · have d : ∀ g tok prev v, SavedOK (readTags.broken (2 * sc.cs.length + sc.saved.length + 2) g _ tok prev v).2 :=
              fun g tok prev v => broken_spec _ g _ tok prev v c1
            exact ih _ _ _ (next_spec _ (d _ _ _ _)).1 (next_spec _ (d _ _ _ _)).2
          · obtain ⟨e1, e2⟩ := next_spec _ c1
            exact ih _ _ _ e1 e2

theorem wf_root : WF (#[({} : NodeR)]) := by
  intro i hi par hpar
  have : i = 0 := by simp at hi; omega
  subst this
  simp at hpar

/-- **`PgnReader::readPGN` never fails a checked access**, and hands the scanner on in a state where that stays true -/
theorem readPGN_spec (sc : Sc) (h : SavedOK sc) :
    match readPGN sc with
    | .error e => e ≠ .oob
    | .ok (_, sc') => SavedOK sc' := by
  have key : ∀ r, readPGN sc = r → (match r with | .error e => e ≠ .oob | .ok (_, sc') => SavedOK sc') := by
    intro r hr
    unfold readPGN at hr
    obtain ⟨h1, h2⟩ := next_spec sc h
    have ht := readTags_spec (2 * sc.cs.length + sc.saved.length + 4) sc.next.2 sc.next.1 [] h1 h2
    simp only at hr
    split at hr
    · subst hr; intro hc; cases hc
    · rename_i start _
      have hg := parsePgn_good (4 * (2 * sc.cs.length + sc.saved.length + 4))
        { arena := #[{}], sc := (readTags (2 * sc.cs.length + sc.saved.length + 4) sc.next.2 sc.next.1 []).2 }
        { pos := start, node := 0 } wf_root ht (by simp)
      split at hr
      · rename_i e he
        rw [he] at hg
        subst hr; exact hg
      · rename_i st he
        rw [he] at hg
        subst hr
        exact hg.2.1
  exact key _ rfl

theorem readAll_noOob (f : Nat) (sc : Sc) (acc : List Game) (h : SavedOK sc) : (readAll f sc acc).2 ≠ some .oob := by
  induction f generalizing sc acc with
  | zero => intro hc; cases hc
  | succ f ih =>
    unfold readAll
    have hs := readPGN_spec sc h
    split
    · rename_i e he
      rw [he] at hs
      intro hc; cases hc; exact hs rfl
    · intro hc; cases hc
    · rename_i g sc' he
      rw [he] at hs
      exact ih _ _ hs

end Chess.Pgn
