import TexelVerif.Chess.UnMoveLemmas
import TexelVerif.Chess.SpecLemmas
/-! Completeness of the un-move oracle (property C15): every `(m, undoInfo P m)` of the relational specification is
    among the candidates and passes the direct evaluation. -/
namespace Chess

theorem fixupEP_fields (p : Pos) : (fixupEP p).b = p.b ∧ (fixupEP p).wtm = p.wtm ∧ (fixupEP p).castle = p.castle := by
  unfold fixupEP
  split
  · exact ⟨rfl, rfl, rfl⟩
  · split <;> exact ⟨rfl, rfl, rfl⟩

theorem ofCore_congr {P P' : Pos} (h : P.core = P'.core) : Pos.ofCore P.core = Pos.ofCore P'.core := by rw [h]

theorem core_congr {P P' : Pos} (h : P.core = P'.core) (m : Mv) :
    pseudo P m = pseudo P' m ∧ legalB P m = legalB P' m ∧ wfB P = wfB P' ∧
    (fixupEP (apply P m)).core = (fixupEP (apply P' m)).core ∧ undoInfo P m = undoInfo P' m := by
  refine ⟨?_, ?_, ?_, ?_, ?_⟩
  · rw [pseudo_core P, pseudo_core P', h]
  · rw [legalB_core P, legalB_core P', h]
  · rw [wfB_core P, wfB_core P', h]
  · rw [fixupEP_core (apply P m), fixupEP_core (apply P' m), apply_core P, apply_core P', h]
  · have hb : P.b = P'.b := congrArg Core.b h
    have hc : P.castle = P'.castle := congrArg Core.castle h
    have he : P.ep = P'.ep := congrArg Core.ep h
    unfold undoInfo Pos.at
    rw [hb, hc, he]

/-- un-making the move from any position with the successor's core gives back the predecessor's core -/
theorem unmake_core (P Q : Pos) (m : Mv) (hp : pseudo P m = true) (hs : epShape P = true)
    (hq : (fixupEP (apply P m)).core = Q.core) : (unmake Q m (undoInfo P m)).core = P.core := by
  have hb : (fixupEP (apply P m)).b = Q.b := congrArg Core.b hq
  have hw : (fixupEP (apply P m)).wtm = Q.wtm := congrArg Core.wtm hq
  rw [(fixupEP_fields _).1] at hb
  rw [(fixupEP_fields _).2.1] at hw
  have hw' : (!Q.wtm) = P.wtm := by rw [← hw]; show (!(!P.wtm)) = P.wtm; simp
  unfold unmake Pos.core undoInfo
  simp only
  rw [← hb, hw', unmake_apply_board P m hp hs]

theorem mem_mvCands (Q : Pos) (m : Mv) (h1 : own (!Q.wtm) (Q.at m.t) = true) (h2 : m.promo = 0 ∨ m.promo = Q.at m.t)
    (h3 : geomB (movedPc (!Q.wtm) (Q.at m.t) m.promo) m = true) : m ∈ mvCands Q := by
  unfold mvCands
  simp only [List.mem_flatMap, List.mem_filter, List.mem_map, allSq, List.mem_finRange, true_and, List.mem_cons,
    List.not_mem_nil, or_false]
  exact ⟨m.t, h1, m.promo, h2, m.f, h3, rfl⟩

theorem mem_cands (all : Bool) (Q : Pos) (x : UnMv) (h1 : x.m ∈ mvCands Q) (h2 : x.ui.cap ∈ capCands (!Q.wtm))
    (h3 : x.ui.castle ∈ castleCands Q x.m) (h4 : x.ui.ep ∈ epCands all Q x.m) : x ∈ cands all Q := by
  unfold cands
  simp only [List.mem_flatMap, List.mem_map]
  exact ⟨x.m, h1, x.ui.cap, h2, x.ui.castle, h3, x.ui.ep, h4, rfl⟩

set_option maxRecDepth 100000 in
theorem cap_facts : ∀ (n : Fin 256) (w : Bool), let p := UInt8.ofNat n.val
    p ≤ 12 → own w p = false → p ∈ capCands w := by
  decide +kernel

theorem mem_capCands (w : Bool) (p : Pc) (h1 : p ≤ 12) (h2 : own w p = false) : p ∈ capCands w := by
  have := cap_facts ⟨p.toNat, p.toNat_lt⟩ w
  simp only [UInt8.ofNat_toNat] at this
  exact this h1 h2

theorem validCodes_at (b : Board) (h : validCodes b = true) (s : Sq) : b[s] ≤ 12 := by
  unfold validCodes at h
  rw [List.all_eq_true] at h
  have := h s (by simp [allSq])
  simpa using this

set_option maxRecDepth 100000 in
theorem castle_lt_facts : ∀ (c : Fin 256) (mx : Fin 16), (UInt8.ofNat c.val) &&& ~~~(UInt8.ofNat mx.val) = 0 → c.val < 16 := by
  decide +kernel

theorem castleMax_lt (b : Board) : (castleMax b).toNat < 16 := by
  unfold castleMax
  repeat' split
  all_goals decide

theorem castle_lt (p : Pos) (h : castleConsistent p = true) : p.castle.toNat < 16 := by
  unfold castleConsistent at h
  have h' : p.castle &&& ~~~(castleMax p.b) = 0 := by simpa using h
  have := castle_lt_facts ⟨p.castle.toNat, p.castle.toNat_lt⟩ ⟨(castleMax p.b).toNat, castleMax_lt p.b⟩
  simp only [UInt8.ofNat_toNat] at this
  exact this h'

theorem mem_castleCands (Q : Pos) (m : Mv) (c : UInt8) (h1 : c.toNat < 16) (h2 : c &&& castleKeep m.f &&& castleKeep m.t = Q.castle) :
    c ∈ castleCands Q m := by
  unfold castleCands
  rw [List.mem_filter]
  refine ⟨?_, by simpa using h2⟩
  rw [List.mem_map]
  exact ⟨c.toNat, List.mem_range.mpr h1, UInt8.ofNat_toNat⟩

theorem pseudo_pre (p : Pos) (m : Mv) (h : pseudo p m = true) :
    own p.wtm (p.at m.f) = true ∧ own p.wtm (p.at m.t) = false ∧ m.f ≠ m.t := by
  by_cases k6 : kind (p.at m.f) = 6
  · rw [pseudo_pawn_um p m k6, Bool.and_eq_true] at h; exact preRule_facts p m h.1
  · by_cases k1 : kind (p.at m.f) = 1
    · rw [pseudo_king p m k1, Bool.and_eq_true] at h; exact preRule_facts p m h.1
    · rw [pseudo_other p m k6 k1, Bool.and_eq_true] at h; exact preRule_facts p m h.1

theorem pseudo_promo_pawn (p : Pos) (m : Mv) (h : pseudo p m = true) (hpr : m.promo ≠ 0) : p.at m.f = pawnOf p.wtm := by
  by_cases k6 : kind (p.at m.f) = 6
  · exact own_pawn _ _ k6 (pseudo_pre p m h).1
  · by_cases k1 : kind (p.at m.f) = 1
    · rw [pseudo_king p m k1, Bool.and_eq_true] at h
      exact absurd (kingRule_facts p m h.2).1 hpr
    · rw [pseudo_other p m k6 k1, Bool.and_eq_true, Bool.and_eq_true] at h
      exact absurd (eq_of_beq h.2.1) hpr

theorem pseudo_hl (p : Pos) (m : Mv) (h : pseudo p m = true) (k1 : kind (p.at m.f) = 1) (e : m.t.val + 2 = m.f.val) : 4 ≤ m.f.val := by
  rw [pseudo_king p m k1, Bool.and_eq_true] at h
  have := ((kingRule_facts p m h.2).2.2 e).1
  rw [this]; split <;> decide

theorem own_promo (w : Bool) (pr : Pc) (h : pr ∈ promos w) (h0 : pr ≠ 0) : own w pr = true := by
  cases w <;> simp [promos] at h <;> rcases h with rfl | rfl | rfl | rfl | rfl <;> first | exact absurd rfl h0 | decide

/-- what stands on the destination square after the move -/
theorem apply_at_t (P : Pos) (m : Mv) (h : pseudo P m = true) :
    (apply P m).b[m.t] = if m.promo != 0 then m.promo else P.at m.f := by
  rw [apply_b]
  exact applyBoard_t P m (pseudo_pre P m h).2.2 (pseudo_hl P m h)

theorem mem_epCands_all (P Q : Pos) (m : Mv) (hp : pseudo P m = true) (hs : epShape P = true) (hw : Q.wtm = !P.wtm)
    (hb : (apply P m).b = Q.b) : P.ep ∈ epCands true Q m := by
  unfold epCands
  simp only [if_true]
  cases he : P.ep with
  | none => exact List.mem_cons_self
  | some e =>
    apply List.mem_cons_of_mem
    rw [List.mem_map]
    refine ⟨e, ?_, rfl⟩
    rw [List.mem_filter]
    refine ⟨by simp [allSq], ?_⟩
    rw [Bool.and_eq_true]
    constructor
    · have hs' := hs
      unfold epShape at hs'
      rw [he] at hs'
      rw [hw]
      cases hpw : P.wtm
      · simp only [hpw, Bool.false_eq_true, if_false, Bool.and_eq_true] at hs'
        simpa using hs'.1.1.1.1
      · simp only [hpw, if_true, Bool.and_eq_true] at hs'
        simpa using hs'.1.1.1.1
    · obtain ⟨a1, a2, a3⟩ := ep_traces P m e hp hs he
      rw [apply_b] at hb
      rw [hb] at a1 a2 a3
      unfold gt at a1 a2 a3
      unfold epTracePlausible
      simp only [Bool.or_eq_true, Bool.and_eq_true, beq_iff_eq]
      rw [hw]
      cases hpw : P.wtm
      · simp only [hpw, Bool.false_eq_true, if_false] at a1 a2 a3
        simpa using ⟨⟨or_assoc.mpr a1, a2⟩, a3⟩
      · simp only [hpw, if_true] at a1 a2 a3
        simpa using ⟨⟨or_assoc.mpr a1, a2⟩, a3⟩

theorem wfB_facts (p : Pos) (h : wfB p = true) :
    epShape p = true ∧ castleConsistent p = true ∧ validCodes p.b = true := by
  unfold wfB at h
  simp only [Bool.and_eq_true] at h
  exact ⟨h.1.1.1.1.1.1.1.1, h.1.1.1.1.1.1.1.2, h.1.1.1.1.1.1.2⟩

theorem legalB_pseudo (p : Pos) (m : Mv) (h : legalB p m = true) : pseudo p m = true := by
  unfold legalB at h; simp only [Bool.and_eq_true] at h; exact h.1

/-! ## the fast e.p. clause -/

theorem mkSq?_self (s : Sq) : mkSq? s.x s.y = some s := by
  unfold mkSq? Sq.x Sq.y
  have := s.isLt
  rw [dif_pos (by omega)]
  congr 1
  apply Fin.ext
  simp only
  omega

theorem pawn_ep_diag (p : Pos) (m : Mv) (ho : own p.wtm (p.at m.f) = true)
    (hr : pawnRule p m = true) (hs : epShape p = true) (he : p.ep = some m.t) :
    ((m.t.x : Int) - m.f.x).natAbs = 1 ∧ (m.t.y : Int) - m.f.y = (if p.wtm then 1 else -1) := by
  have hf := m.f.isLt
  have ht := m.t.isLt
  unfold epShape at hs
  rw [he] at hs
  unfold pawnRule promoOk dxy at hr
  rw [gt_at] at ho
  cases hw : p.wtm
  · simp only [hw, Bool.false_eq_true, if_false, Bool.and_eq_true, Bool.or_eq_true, beq_iff_eq, Sq.x, Sq.y] at hs hr ho ⊢
    obtain ⟨⟨⟨⟨s1, s2⟩, s3⟩, s4⟩, s5⟩ := hs
    obtain ⟨r1, r2⟩ := hr
    have hfne : m.f.val ≠ m.t.val + 8 := by
      intro e
      change gt p.b (m.t.val + 8) = WPAWN at s3
      rw [e, s3] at ho
      revert ho; decide
    rcases r2 with (⟨⟨a, b⟩, c⟩ | ⟨⟨⟨⟨a, b⟩, c⟩, d⟩, e⟩) | ⟨⟨a, b⟩, c⟩
    · exfalso; omega
    · exfalso; omega
    · exact ⟨a, b⟩
  · simp only [hw, if_true, Bool.and_eq_true, Bool.or_eq_true, beq_iff_eq, Sq.x, Sq.y] at hs hr ho ⊢
    obtain ⟨⟨⟨⟨s1, s2⟩, s3⟩, s4⟩, s5⟩ := hs
    obtain ⟨r1, r2⟩ := hr
    have hfne : m.f.val ≠ m.t.val - 8 := by
      intro e
      change gt p.b (m.t.val - 8) = BPAWN at s3
      rw [e, s3] at ho
      revert ho; decide
    rcases r2 with (⟨⟨a, b⟩, c⟩ | ⟨⟨⟨⟨a, b⟩, c⟩, d⟩, e⟩) | ⟨⟨a, b⟩, c⟩
    · exfalso; omega
    · exfalso; omega
    · exact ⟨a, b⟩

theorem epCapLegal_iff (p : Pos) (e : Sq) (hs : epShape p = true) (he : p.ep = some e) :
    ((genLegal p).any fun m => m.t == e && kind (p.at m.f) == 6) = epCapLegal p e := by
  rw [Bool.eq_iff_iff]
  constructor
  · intro h
    rw [List.any_eq_true] at h
    obtain ⟨m, hm, hc⟩ := h
    simp only [Bool.and_eq_true, beq_iff_eq] at hc
    obtain ⟨hte, k6⟩ := hc
    have hleg := (mem_genLegal p m).mp hm
    have hp := legalB_pseudo p m hleg
    have hp' := hp
    rw [pseudo_pawn_um p m k6, Bool.and_eq_true] at hp'
    obtain ⟨hown, _, _⟩ := preRule_facts p m hp'.1
    have he' : p.ep = some m.t := by rw [hte]; exact he
    obtain ⟨hpr, _⟩ := pawn_ep_facts p m hown hp'.2 hs he'
    obtain ⟨d1, d2⟩ := pawn_ep_diag p m hown hp'.2 hs he'
    have hm' : m = { f := m.f, t := e, promo := 0 } := by
      cases m; simp only at hte hpr; simp [hte, hpr]
    unfold epCapLegal
    simp only [List.any_cons, List.any_nil, Bool.or_false, Bool.or_eq_true]
    have hself := mkSq?_self m.f
    rw [← hte]
    by_cases hx : (m.f.x : Int) = (m.t.x : Int) + (-1)
    · left
      have : mkSq? ((m.t.x : Int) + -1) ((m.t.y : Int) - (if p.wtm then 1 else -1)) = some m.f := by
        rw [← hself]; congr 1 <;> omega
      rw [this]
      simp only [Bool.and_eq_true, beq_iff_eq]
      refine ⟨k6, ?_⟩
      rw [hte, ← hm']; exact hleg
    · right
      have : mkSq? ((m.t.x : Int) + 1) ((m.t.y : Int) - (if p.wtm then 1 else -1)) = some m.f := by
        rw [← hself]; congr 1 <;> omega
      rw [this]
      simp only [Bool.and_eq_true, beq_iff_eq]
      refine ⟨k6, ?_⟩
      rw [hte, ← hm']; exact hleg
  · intro h
    unfold epCapLegal at h
    rw [List.any_eq_true] at h
    obtain ⟨dx, _, hc⟩ := h
    split at hc
    · next f hf =>
      simp only [Bool.and_eq_true, beq_iff_eq] at hc
      rw [List.any_eq_true]
      exact ⟨{ f := f, t := e, promo := 0 }, (mem_genLegal p _).mpr hc.2, by simp [hc.1]⟩
    · cases hc

theorem epValid_eq (p : Pos) (hs : epShape p = true) : ((fixupEP p).ep == p.ep) = epValid p := by
  unfold epValid fixupEP
  cases he : p.ep with
  | none => simp [he]
  | some e =>
    simp only
    rw [← epCapLegal_iff p e hs he]
    split
    · next h => simp [h, he]
    · next h => simp [h]

theorem wfFast_eq (p : Pos) : wfFast p = wfB p := by
  unfold wfFast wfB
  cases hs : epShape p
  · simp
  · rw [epValid_eq p hs]

/-- **completeness of the oracle** -/
theorem unMoves_complete (all : Bool) (Q : Pos) (x : UnMv) (h : Pred Q x)
    (hm : all = true ∨ x.ui.ep = none ∨ isEpUn Q x = true) : x ∈ unMoves all Q := by
  obtain ⟨P, hwf, hleg, hq, hui⟩ := h
  have hp := legalB_pseudo P x.m hleg
  obtain ⟨hs, hcc, hv⟩ := wfB_facts P hwf
  obtain ⟨hown, hnown, hne⟩ := pseudo_pre P x.m hp
  have hb : (apply P x.m).b = Q.b := by rw [← (fixupEP_fields _).1]; exact congrArg Core.b hq
  have hw : Q.wtm = !P.wtm := by
    have : (fixupEP (apply P x.m)).wtm = Q.wtm := congrArg Core.wtm hq
    rw [(fixupEP_fields _).2.1] at this; rw [← this]; rfl
  have hw' : (!Q.wtm) = P.wtm := by rw [hw]; simp
  have hc : P.castle &&& castleKeep x.m.f &&& castleKeep x.m.t = Q.castle := by
    have : (fixupEP (apply P x.m)).castle = Q.castle := congrArg Core.castle hq
    rw [(fixupEP_fields _).2.2] at this; rw [← this]; rfl
  have hcore : (unmake Q x.m x.ui).core = P.core := by rw [hui]; exact unmake_core P Q x.m hp hs hq
  obtain ⟨c1, c2, c3, c4, c5⟩ := core_congr hcore x.m
  have hat : Q.at x.m.t = if x.m.promo != 0 then x.m.promo else P.at x.m.f := by
    unfold Pos.at; rw [← hb]; exact apply_at_t P x.m hp
  have hmoved : movedPc (!Q.wtm) (Q.at x.m.t) x.m.promo = P.at x.m.f := by
    rw [hat, hw']
    unfold movedPc
    by_cases h0 : x.m.promo = 0
    · simp [h0]
    · simp [h0, pseudo_promo_pawn P x.m hp h0]
  unfold unMoves
  rw [List.mem_filter]
  constructor
  · apply mem_cands
    · apply mem_mvCands
      · rw [hat, hw']
        by_cases h0 : x.m.promo = 0
        · simpa [h0] using hown
        · simpa [h0] using own_promo _ _ (pseudo_promo P x.m hp) h0
      · rw [hat]
        by_cases h0 : x.m.promo = 0
        · exact Or.inl h0
        · right; simp [h0]
      · rw [hmoved]; exact pseudo_geom P x.m hp
    · rw [hui, hw']
      exact mem_capCands _ _ (validCodes_at P.b hv x.m.t) hnown
    · rw [hui]
      exact mem_castleCands Q x.m P.castle (castle_lt P hcc) hc
    · rcases hm with rfl | he | he
      · rw [hui]; exact mem_epCands_all P Q x.m hp hs hw hb
      · unfold epCands
        rw [he]
        cases all
        · simp only [Bool.false_eq_true, if_false]; split <;> simp
        · simp
      · unfold isEpUn at he
        simp only [Bool.and_eq_true, beq_iff_eq] at he
        unfold epCands
        cases all
        · simp only [Bool.false_eq_true, if_false]
          rw [if_pos (by simpa using he.1), he.2]
          simp
        · rw [hui]; exact mem_epCands_all P Q x.m hp hs hw hb
  · unfold predB
    simp only [Bool.and_eq_true, beq_iff_eq]
    refine ⟨⟨⟨⟨?_, ?_⟩, ?_⟩, ?_⟩, ?_⟩
    · rw [c1]; exact hp
    · rw [wfFast_eq, c3]; exact hwf
    · rw [c2]; exact hleg
    · rw [c4]; exact hq
    · rw [c5]; exact hui.symm

/-! ## the mode without unused e.p. squares loses no predecessor -/

def noEp (P : Pos) : Pos := { P with ep := none }

theorem pseudo_noEp (P : Pos) (m : Mv) (h : ¬ (kind (P.at m.f) = 6 ∧ P.ep = some m.t)) : pseudo (noEp P) m = pseudo P m := by
  by_cases k6 : kind (P.at m.f) = 6
  · have k6' : kind ((noEp P).at m.f) = 6 := k6
    have he : ¬ P.ep = some m.t := fun e => h ⟨k6, e⟩
    rw [pseudo_pawn_um P m k6, pseudo_pawn_um (noEp P) m k6']
    have : pawnRule (noEp P) m = pawnRule P m := by
      have he' : (P.ep == some m.t) = false := by simpa using he
      unfold pawnRule noEp
      simp [he', Pos.at]
    rw [this]; rfl
  · by_cases k1 : kind (P.at m.f) = 1
    · have k1' : kind ((noEp P).at m.f) = 1 := k1
      rw [pseudo_king P m k1, pseudo_king (noEp P) m k1']; rfl
    · have k6' : kind ((noEp P).at m.f) ≠ 6 := k6
      have k1' : kind ((noEp P).at m.f) ≠ 1 := k1
      rw [pseudo_other P m k6 k1, pseudo_other (noEp P) m k6' k1']; rfl

theorem apply_noEp (P : Pos) (m : Mv) (h : ¬ (kind (P.at m.f) = 6 ∧ P.ep = some m.t)) : apply (noEp P) m = apply P m := by
  have h' := h
  simp only [Pos.at, Fin.getElem_fin] at h'
  unfold apply noEp
  simp [Pos.at, h']

theorem wfB_noEp (P : Pos) (h : wfB P = true) : wfB (noEp P) = true := by
  unfold wfB at h ⊢
  simp only [Bool.and_eq_true] at h ⊢
  obtain ⟨⟨⟨⟨⟨⟨⟨⟨_, h2⟩, h3⟩, h4⟩, h5⟩, h6⟩, h7⟩, h8⟩, _⟩ := h
  exact ⟨⟨⟨⟨⟨⟨⟨⟨rfl, h2⟩, h3⟩, h4⟩, h5⟩, h6⟩, h7⟩, h8⟩, by simp [fixupEP, noEp]⟩

theorem legalB_noEp (P : Pos) (m : Mv) (h : ¬ (kind (P.at m.f) = 6 ∧ P.ep = some m.t)) : legalB (noEp P) m = legalB P m := by
  unfold legalB
  rw [pseudo_noEp P m h, apply_noEp P m h]; rfl

/-- a predecessor with an unused e.p. square is also a predecessor without it -/
theorem pred_noEp (Q : Pos) (x : UnMv) (h : Pred Q x) (hn : isEpUn Q x = false) :
    Pred Q x.noEp := by
  obtain ⟨P, hwf, hleg, hq, hui⟩ := h
  have hp := legalB_pseudo P x.m hleg
  obtain ⟨hs, _, _⟩ := wfB_facts P hwf
  have hcond : ¬ (kind (P.at x.m.f) = 6 ∧ P.ep = some x.m.t) := by
    rintro ⟨k6, he⟩
    rw [pseudo_pawn_um P x.m k6, Bool.and_eq_true] at hp
    obtain ⟨hown, _, _⟩ := preRule_facts P x.m hp.1
    obtain ⟨hpr, _⟩ := pawn_ep_facts P x.m hown hp.2 hs he
    have hb : (apply P x.m).b = Q.b := by rw [← (fixupEP_fields _).1]; exact congrArg Core.b hq
    have hat : Q.at x.m.t = P.at x.m.f := by
      unfold Pos.at; rw [← hb, apply_at_t P x.m (legalB_pseudo P x.m hleg)]; simp [hpr, Pos.at]
    have : isEpUn Q x = true := by
      unfold isEpUn
      rw [hat, k6, hui]
      simp [undoInfo, he]
    rw [this] at hn; cases hn
  refine ⟨noEp P, wfB_noEp P hwf, ?_, ?_, ?_⟩
  · show legalB (noEp P) x.m = true
    rw [legalB_noEp P x.m hcond]; exact hleg
  · show (fixupEP (apply (noEp P) x.m)).core = Q.core
    rw [apply_noEp P x.m hcond]; exact hq
  · show x.noEp.ui = undoInfo (noEp P) x.m
    unfold UnMv.noEp; rw [hui]; rfl

/-! ## positions with an e.p. square: the double push came from an empty square -/

theorem fixupEP_ep_some (p : Pos) (e : Sq) (h : (fixupEP p).ep = some e) : p.ep = some e := by
  unfold fixupEP at h
  split at h
  · next hn => rw [hn] at h; cases h
  · next e' he =>
    split at h
    · exact h
    · cases h

def applyEp (P : Pos) (m : Mv) : Option Sq :=
  let w := P.wtm
  let b := applyBoard P m
  if kind (P.at m.f) == 6 && (m.t.val == m.f.val + 16 || m.f.val == m.t.val + 16) then
    let enemyPawn : Pc := if w then BPAWN else WPAWN
    let adj := (m.t.x > 0 && b.getD (m.t.val - 1) 0 == enemyPawn) || (m.t.x < 7 && b.getD (m.t.val + 1) 0 == enemyPawn)
    if adj then some ⟨((m.f.val + m.t.val) / 2) % 64, Nat.mod_lt _ (by decide)⟩ else none
  else none

theorem apply_ep (P : Pos) (m : Mv) : (apply P m).ep = applyEp P m := rfl

theorem ite_none_eq_some {α : Type} {c : Prop} [Decidable c] {x : Option α} {b : α} (h : (if c then x else none) = some b) : c ∧ x = some b := by
  by_cases hc : c
  · rw [if_pos hc] at h; exact ⟨hc, h⟩
  · rw [if_neg hc] at h; cases h

/-- the e.p. square after a move is set only by a double pawn push, midway between from and to -/
theorem apply_ep_some (P : Pos) (m : Mv) (e : Sq) (h : (apply P m).ep = some e) :
    kind (P.at m.f) = 6 ∧ (m.t.val = m.f.val + 16 ∨ m.f.val = m.t.val + 16) ∧ e.val = (m.f.val + m.t.val) / 2 % 64 := by
  rw [apply_ep] at h
  unfold applyEp at h
  simp only at h
  obtain ⟨hc, h2⟩ := ite_none_eq_some h
  simp only [Bool.and_eq_true, Bool.or_eq_true, beq_iff_eq] at hc
  obtain ⟨_, h3⟩ := ite_none_eq_some h2
  injection h3 with h3
  exact ⟨hc.1, hc.2, by rw [← h3]⟩

/-- the from-square is empty after a move that is not castling -/
theorem applyBoard_f (P : Pos) (m : Mv) (hne : m.f ≠ m.t) (hk : kind (P.at m.f) ≠ 1) : gt (applyBoard P m) m.f.val = 0 := by
  have hne' : m.f.val ≠ m.t.val := fun h => hne (Fin.ext h)
  have e1 : (kind (P.at m.f) == 1) = false := by simpa using hk
  unfold applyBoard
  simp only [e1, Bool.false_and, Bool.false_eq_true, if_false]
  simp only [gt_setSq]
  rw [if_neg (by omega)]; simp [m.f.isLt]

/-- **the repaired behaviour is all the specification asks for**: a position with an e.p. square has predecessors
    only if the origin square of the double push (and the e.p. square itself) is empty -/
theorem pred_ep_origin_empty (Q : Pos) (x : UnMv) (e : Sq) (h : Pred Q x) (he : Q.ep = some e) :
    Q.b.getD (if Q.wtm then e.val + 8 else e.val - 8) 0 = 0 ∧ Q.b.getD e.val 0 = 0 := by
  obtain ⟨P, hwf, hleg, hq, hui⟩ := h
  have hp := legalB_pseudo P x.m hleg
  have hb : (apply P x.m).b = Q.b := by rw [← (fixupEP_fields _).1]; exact congrArg Core.b hq
  have hw : Q.wtm = !P.wtm := by
    have : (fixupEP (apply P x.m)).wtm = Q.wtm := congrArg Core.wtm hq
    rw [(fixupEP_fields _).2.1] at this; rw [← this]; rfl
  have hep : (fixupEP (apply P x.m)).ep = some e := by
    have : (fixupEP (apply P x.m)).ep = Q.ep := congrArg Core.ep hq
    rw [this, he]
  obtain ⟨k6, hd, hev⟩ := apply_ep_some P x.m e (fixupEP_ep_some _ _ hep)
  have hp' := hp
  rw [pseudo_pawn_um P x.m k6, Bool.and_eq_true] at hp'
  obtain ⟨hown, _, hne⟩ := preRule_facts P x.m hp'.1
  have hf := x.m.f.isLt
  have ht := x.m.t.isLt
  obtain ⟨hs, _, _⟩ := wfB_facts P hwf
  have hel := e.isLt
  -- the predecessor's own e.p. square (if any) is not on the rank the pawn lands on
  have hnep : P.ep ≠ some x.m.t := by
    intro hpe
    obtain ⟨_, _, _, a4, a5⟩ := pawn_ep_facts P x.m hown hp'.2 hs hpe
    unfold epShape at hs
    rw [hpe] at hs
    cases hw' : P.wtm
    · simp only [hw', Bool.false_eq_true, if_false, Bool.and_eq_true, beq_iff_eq, Sq.y] at hs
      have := hs.1.1.1.1
      unfold pawnRule dxy at hp'
      simp only [hw', Bool.false_eq_true, if_false, Bool.and_eq_true, Bool.or_eq_true, beq_iff_eq, Sq.x, Sq.y] at hp'
      obtain ⟨_, _, r2⟩ := hp'
      rcases r2 with (⟨⟨a, b⟩, c⟩ | ⟨⟨⟨⟨a, b⟩, c⟩, d⟩, e'⟩) | ⟨⟨a, b⟩, c⟩ <;> omega
    · simp only [hw', if_true, Bool.and_eq_true, beq_iff_eq, Sq.y] at hs
      have := hs.1.1.1.1
      unfold pawnRule dxy at hp'
      simp only [hw', if_true, Bool.and_eq_true, Bool.or_eq_true, beq_iff_eq, Sq.x, Sq.y] at hp'
      obtain ⟨_, _, r2⟩ := hp'
      rcases r2 with (⟨⟨a, b⟩, c⟩ | ⟨⟨⟨⟨a, b⟩, c⟩, d⟩, e'⟩) | ⟨⟨a, b⟩, c⟩ <;> omega
  have hr := hp'.2
  unfold pawnRule dxy at hr
  rw [apply_b] at hb
  have hF := applyBoard_f P x.m hne (by rw [k6]; decide)
  have hFr : ∀ i, 8 ≤ i ∧ i < 56 → i ≠ x.m.f.val → i ≠ x.m.t.val → gt (applyBoard P x.m) i = gt P.b i :=
    fun i hi h1 h2 => square_stays P x.m i hp hi h1 h2 (fun h => absurd h hnep)
  rw [hb] at hF hFr
  unfold gt at hF hFr
  rw [hw]
  cases hw' : P.wtm
  · simp only [hw', Bool.false_eq_true, if_false, Bool.and_eq_true, Bool.or_eq_true, beq_iff_eq, Sq.x, Sq.y, Bool.not_false, if_true] at hr ⊢
    obtain ⟨_, r2⟩ := hr
    rcases r2 with (⟨⟨a, b⟩, c⟩ | ⟨⟨⟨⟨a, b⟩, c⟩, d⟩, e'⟩) | ⟨⟨a, b⟩, c⟩
    · exfalso; omega
    · have h1 : e.val + 8 = x.m.f.val := by omega
      refine ⟨by rw [h1]; exact hF, ?_⟩
      split at e'
      · next q hq =>
        obtain ⟨qx, qy⟩ := mkSq?_some _ _ _ hq
        simp only [Sq.x, Sq.y] at qx qy
        have hqv : q.val = e.val := by have := q.isLt; omega
        rw [hFr e.val (by omega) (by omega) (by omega), ← hqv]
        have := eq_of_beq e'
        rw [gt_at] at this; exact this
      · cases e'
    · exfalso; omega
  · simp only [hw', if_true, Bool.and_eq_true, Bool.or_eq_true, beq_iff_eq, Sq.x, Sq.y, Bool.not_true, Bool.false_eq_true, if_false] at hr ⊢
    obtain ⟨_, r2⟩ := hr
    rcases r2 with (⟨⟨a, b⟩, c⟩ | ⟨⟨⟨⟨a, b⟩, c⟩, d⟩, e'⟩) | ⟨⟨a, b⟩, c⟩
    · exfalso; omega
    · have h1 : e.val - 8 = x.m.f.val := by omega
      refine ⟨by rw [h1]; exact hF, ?_⟩
      split at e'
      · next q hq =>
        obtain ⟨qx, qy⟩ := mkSq?_some _ _ _ hq
        simp only [Sq.x, Sq.y] at qx qy
        have hqv : q.val = e.val := by have := q.isLt; omega
        rw [hFr e.val (by omega) (by omega) (by omega), ← hqv]
        have := eq_of_beq e'
        rw [gt_at] at this; exact this
      · cases e'
    · exfalso; omega

end Chess
