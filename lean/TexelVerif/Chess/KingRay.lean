/-! Prototype: the king-ray shortcut of MoveGen::removeIllegal / isLegal as a lemma about points on a line. -/
namespace Ray

abbrev Pt := Int × Int
def step (k d : Pt) (i : Nat) : Pt := (k.1 + i * d.1, k.2 + i * d.2)

theorem step_inj (k d : Pt) (hd : d ≠ (0,0)) (i j : Nat) (h : step k d i = step k d j) : i = j := by
  unfold step at h
  have h1 : k.1 + i * d.1 = k.1 + j * d.1 := congrArg Prod.fst h
  have h2 : k.2 + i * d.2 = k.2 + j * d.2 := congrArg Prod.snd h
  have hd' : d.1 ≠ 0 ∨ d.2 ≠ 0 := by
    by_cases a : d.1 = 0
    · right; intro b; apply hd; exact Prod.ext a b
    · left; exact a
  rcases hd' with a | a
  · have : ((i : Int) - j) * d.1 = 0 := by rw [Int.sub_mul]; omega
    rcases Int.mul_eq_zero.1 this with h | h
    · omega
    · exact absurd h a
  · have : ((i : Int) - j) * d.2 = 0 := by rw [Int.sub_mul]; omega
    rcases Int.mul_eq_zero.1 this with h | h
    · omega
    · exact absurd h a

/-- squares strictly between k and k + n·d are all empty -/
def clear (occ : Pt → Bool) (k d : Pt) (n : Nat) : Prop := ∀ i, 0 < i → i < n → occ (step k d i) = false

/-- f is the first occupied square seen from k in direction d (i.e. f ∈ Texel's `kingAtks` along d) -/
def visible (occ : Pt → Bool) (k d f : Pt) : Prop := ∃ n, 0 < n ∧ f = step k d n ∧ clear occ k d n

/-- board occupancy after moving a piece from f to t -/
def occAfter (occ : Pt → Bool) (f t : Pt) : Pt → Bool := fun s => if s = t then true else if s = f then false else occ s

/-- The king-ray lemma: if the moved piece's origin is not visible from the king along d, any line segment
    from the king along d that is clear after the move was already clear before the move. -/
theorem clear_before_of_clear_after (occ : Pt → Bool) (k d f t : Pt) (hd : d ≠ (0,0)) (n : Nat)
    (hnv : ¬ visible occ k d f) (hc : clear (occAfter occ f t) k d n) : clear occ k d n := by
  intro i hi0 hin
  -- suppose step i is occupied before the move
  by_cases ho : occ (step k d i) = true
  · exfalso
    -- take the smallest occupied index i0 ≤ i
    have : ∃ i0, 0 < i0 ∧ i0 ≤ i ∧ occ (step k d i0) = true ∧ ∀ j, 0 < j → j < i0 → occ (step k d j) = false := by
      clear hc hin
      induction i using Nat.strongRecOn with
      | _ i ih =>
        by_cases hall : ∀ j, 0 < j → j < i → occ (step k d j) = false
        · exact ⟨i, hi0, Nat.le_refl _, ho, hall⟩
        · have : ∃ j, 0 < j ∧ j < i ∧ occ (step k d j) = true := by
            by_cases hex : ∃ j, 0 < j ∧ j < i ∧ occ (step k d j) = true
            · exact hex
            · exfalso; apply hall; intro j hj0 hji
              by_cases hoj : occ (step k d j) = true
              · exact absurd ⟨j, hj0, hji, hoj⟩ hex
              · simpa using hoj
          obtain ⟨j, hj0, hji, hoj⟩ := this
          obtain ⟨i0, a, b, c, e⟩ := ih j hji hj0 hoj
          exact ⟨i0, a, by omega, c, e⟩
    obtain ⟨i0, h0, hle, hocc, hmin⟩ := this
    -- after the move that square is empty (it lies strictly inside the clear segment)
    have hafter := hc i0 h0 (by omega)
    unfold occAfter at hafter
    by_cases e1 : step k d i0 = t
    · simp [e1] at hafter
    · by_cases e2 : step k d i0 = f
      · exact hnv ⟨i0, h0, e2.symm, hmin⟩
      · simp [e1, e2, hocc] at hafter
  · simpa using ho

end Ray
