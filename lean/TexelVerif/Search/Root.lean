/-!
Bookkeeping of the root of the search (`Search::iterativeDeepening`, `getRootMoves`, `notifyPV`,
`MoveList::filter`; search.cpp:110-312, 365-392, 1094-1131), with the scores returned by the sub-searches
left completely arbitrary and a stop (`StopSearch`) possible after any step.
-/
namespace Search

/-- `MoveList::filter(searchMoves)`: keep the moves that occur in `searchMoves` -/
def filterMoves {α} [DecidableEq α] (moves searchMoves : List α) : List α := moves.filter (searchMoves.contains ·)

/-- `getRootMoves`: the subset of root moves searched at reduced strength.  `pin` is `rndL % size`
    (always included), `incl i` the outcome of the i-th random draw. -/
def includedIdx (n pin : Nat) (incl : Nat → Bool) : List Nat := (List.range n).filter fun i => i == pin % n || incl i

def rootSubset {α} (moves : List α) (pin : Nat) (incl : Nat → Bool) : List α :=
  (includedIdx moves.length pin incl).filterMap (moves[·]?)

structure RootSt (α : Type) where
  moves : List α          -- rootMoves (the MoveInfo records; only the moves matter here)
  best : α                -- bestMove
  bestExact : α           -- bestExactMove

/-- one bookkeeping step of the root loop -/
inductive Step {α : Type} : RootSt α → RootSt α → Prop
  /-- unresolved fail high of root move `mi`: `bestMove = m` -/
  | failHigh (s : RootSt α) (mi : Nat) (h : mi < s.moves.length) : Step s { s with best := s.moves[mi] }
  /-- after a root move is finished it is re-inserted by score (some permutation), then
      `bestMove = rootMoves[0].move; bestExactMove = bestMove` -/
  | resort (s : RootSt α) (ms : List α) (m : α) (hp : ms.Perm s.moves) (hh : ms.head? = some m) :
      Step s { moves := ms, best := m, bestExact := m }
  /-- `stable_sort` of the tail between iterations: some permutation -/
  | sortTail (s : RootSt α) (ms : List α) (hp : ms.Perm s.moves) : Step s { s with moves := ms }

inductive Reach {α : Type} (s0 : RootSt α) : RootSt α → Prop
  | init : Reach s0 s0
  | step (s t) : Reach s0 s → Step s t → Reach s0 t

/-- the `notifyPV` selection loop: the indices of the lines printed by one multi-PV report -/
def notifyLoop (score alpha : Nat → Int) (mi maxPV : Nat) : (fuel i n : Nat) → (miNotified : Bool) → List Nat
  | 0, _, _, _ => []
  | fuel + 1, i, n, miNotified =>
    if n ≥ maxPV then [] else
    let early := !miNotified && decide (score mi > score i) && decide (score mi > alpha mi)
    if early then
      if n + 1 ≥ maxPV then [mi]
      else if i == mi then mi :: notifyLoop score alpha mi maxPV fuel (i + 1) (n + 1) true
      else mi :: i :: notifyLoop score alpha mi maxPV fuel (i + 1) (n + 2) true
    else if i == mi then
      if !miNotified then mi :: notifyLoop score alpha mi maxPV fuel (i + 1) (n + 1) true
      else notifyLoop score alpha mi maxPV fuel (i + 1) n miNotified
    else i :: notifyLoop score alpha mi maxPV fuel (i + 1) (n + 1) miNotified

/-- conversion of an internal score to the `mate N` number (`Search::notifyPV`, search.cpp:403-410) -/
def mateN (score : Int) : Option Int :=
  if score > 16000 then some ((32000 - score) / 2)
  else if score < -16000 then some (-((32000 + score - 1) / 2))
  else none

end Search
