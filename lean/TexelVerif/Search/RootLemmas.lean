import TexelVerif.Search.Root
namespace Search

theorem includedIdx_nonempty (n pin : Nat) (incl : Nat → Bool) (h : 0 < n) : includedIdx n pin incl ≠ [] := by
  intro he
  have : pin % n ∈ includedIdx n pin incl := by
    unfold includedIdx
    rw [List.mem_filter]
    exact ⟨List.mem_range.2 (Nat.mod_lt _ h), by simp⟩
  rw [he] at this; cases this

theorem includedIdx_lt (n pin : Nat) (incl : Nat → Bool) (i : Nat) (h : i ∈ includedIdx n pin incl) : i < n := by
  unfold includedIdx at h
  exact List.mem_range.1 (List.mem_filter.1 h).1

theorem notifyLoop_spec (score alpha : Nat → Int) (mi maxPV : Nat) :
    ∀ fuel i n miN, (∀ j ∈ notifyLoop score alpha mi maxPV fuel i n miN, (j = mi ∧ miN = false) ∨ (i ≤ j ∧ j ≠ mi)) ∧
      (notifyLoop score alpha mi maxPV fuel i n miN).Nodup := by
  intro fuel
  induction fuel with
  | zero => intro i n miN; simp [notifyLoop]
  | succ f ih =>
    intro i n miN
    unfold notifyLoop
    simp only
    split
    · simp
    · split
      · next he =>
        have hm : miN = false := by
          simp only [Bool.and_eq_true, Bool.not_eq_true'] at he; exact he.1.1
        split
        · simp [hm]
        · split
          · next hi =>
            have hi' : i = mi := by simpa using hi
            obtain ⟨h1, h2⟩ := ih (i + 1) (n + 1) true
            constructor
            · intro j hj
              rcases List.mem_cons.1 hj with rfl | hj
              · exact Or.inl ⟨rfl, hm⟩
              · rcases h1 j hj with ⟨_, h⟩ | ⟨h, h'⟩
                · cases h
                · exact Or.inr ⟨by omega, h'⟩
            · refine List.nodup_cons.2 ⟨?_, h2⟩
              intro hj
              rcases h1 mi hj with ⟨_, h⟩ | ⟨_, h'⟩
              · cases h
              · exact h' rfl
          · next hi =>
            have hi' : i ≠ mi := by simpa using hi
            obtain ⟨h1, h2⟩ := ih (i + 1) (n + 2) true
            constructor
            · intro j hj
              rcases List.mem_cons.1 hj with rfl | hj
              · exact Or.inl ⟨rfl, hm⟩
              · rcases List.mem_cons.1 hj with rfl | hj
                · exact Or.inr ⟨Nat.le_refl _, hi'⟩
                · rcases h1 j hj with ⟨_, h⟩ | ⟨h, h'⟩
                  · cases h
                  · exact Or.inr ⟨by omega, h'⟩
            · refine List.nodup_cons.2 ⟨?_, List.nodup_cons.2 ⟨?_, h2⟩⟩
              · intro hj
                rcases List.mem_cons.1 hj with h | hj
                · exact hi' h.symm
                · rcases h1 mi hj with ⟨_, h⟩ | ⟨_, h'⟩
                  · cases h
                  · exact h' rfl
              · intro hj
                rcases h1 i hj with ⟨_, h⟩ | ⟨h, _⟩
                · cases h
                · omega
      · split
        · next hi =>
          have hi' : i = mi := by simpa using hi
          split
          · next hn =>
            have hm : miN = false := by simpa using hn
            obtain ⟨h1, h2⟩ := ih (i + 1) (n + 1) true
            constructor
            · intro j hj
              rcases List.mem_cons.1 hj with rfl | hj
              · exact Or.inl ⟨rfl, hm⟩
              · rcases h1 j hj with ⟨_, h⟩ | ⟨h, h'⟩
                · cases h
                · exact Or.inr ⟨by omega, h'⟩
            · refine List.nodup_cons.2 ⟨?_, h2⟩
              intro hj
              rcases h1 mi hj with ⟨_, h⟩ | ⟨_, h'⟩
              · cases h
              · exact h' rfl
          · next hn =>
            have hm : miN = true := by simpa using hn
            obtain ⟨h1, h2⟩ := ih (i + 1) n miN
            constructor
            · intro j hj
              rcases h1 j hj with ⟨_, h⟩ | ⟨h, h'⟩
              · rw [hm] at h; cases h
              · exact Or.inr ⟨by omega, h'⟩
            · exact h2
        · next hi =>
          have hi' : i ≠ mi := by simpa using hi
          obtain ⟨h1, h2⟩ := ih (i + 1) (n + 1) miN
          constructor
          · intro j hj
            rcases List.mem_cons.1 hj with rfl | hj
            · exact Or.inr ⟨Nat.le_refl _, hi'⟩
            · rcases h1 j hj with h | ⟨h, h'⟩
              · exact Or.inl h
              · exact Or.inr ⟨by omega, h'⟩
          · refine List.nodup_cons.2 ⟨?_, h2⟩
            intro hj
            rcases h1 i hj with ⟨h, _⟩ | ⟨h, _⟩
            · exact hi' h
            · omega

end Search
