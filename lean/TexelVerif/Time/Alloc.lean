/-! Prototype: EngineControl::computeTimeLimit (clock branch) and the single-move clamp of startThread -/
namespace Tm

def clamp (v lo hi : Int) : Int := min (max v lo) hi

structure Limits where
  soft : Int
  hard : Int

/-- clock branch.  `bonus` = the floating-point ponder bonus (arbitrary), `scale` = `(int)(min * clamp(moves*0.5, 2.0, maxTimeUsage*0.01))`
    abstracted to a function with the single property used below. -/
def alloc (time inc movesToGo maxRem buffer bonus : Int) (scale : Int → Int) : Limits :=
  let moves0 := if movesToGo = 0 then 999 else movesToGo
  let moves := min moves0 maxRem
  let margin := min buffer (time * 9 / 10)
  let timeLimit := (time + inc * (moves - 1) - margin) / moves
  let min0 := timeLimit + bonus
  let max0 := scale min0
  { soft := clamp min0 1 (time - margin), hard := clamp max0 1 (time - margin) }

theorem alloc_ok (time inc movesToGo maxRem buffer bonus : Int) (scale : Int → Int)
    (ht : 1 ≤ time) (hb : 1 ≤ buffer) (hscale : ∀ m, 1 ≤ m → m ≤ scale m) :
    let L := alloc time inc movesToGo maxRem buffer bonus scale
    let budget := time - min buffer (time * 9 / 10)
    1 ≤ L.soft ∧ L.soft ≤ L.hard ∧ L.hard ≤ budget := by
  simp only [alloc, clamp]
  have hm : min buffer (time * 9 / 10) ≤ time * 9 / 10 := Int.min_le_right _ _
  have hbud : 1 ≤ time - min buffer (time * 9 / 10) := by omega
  generalize (time + inc * (min (if movesToGo = 0 then 999 else movesToGo) maxRem - 1) - min buffer (time * 9 / 10)) /
      min (if movesToGo = 0 then 999 else movesToGo) maxRem + bonus = m0
  generalize hB : time - min buffer (time * 9 / 10) = B at hbud
  have hs := hscale m0
  refine ⟨?_, ?_, ?_⟩
  · omega
  · by_cases h1 : 1 ≤ m0
    · have := hs h1; omega
    · omega
  · omega

/-- startThread: one legal move and not pondering -/
def singleMoveClamp (L : Limits) : Limits :=
  if L.hard > 0 then { soft := clamp (L.soft / 100) 1 100, hard := clamp (L.hard / 100) 1 100 } else L

theorem singleMove_ok (L : Limits) (B : Int) (h : 1 ≤ L.soft ∧ L.soft ≤ L.hard ∧ L.hard ≤ B) :
    let L' := singleMoveClamp L
    1 ≤ L'.soft ∧ L'.soft ≤ L'.hard ∧ L'.hard ≤ B := by
  simp only [singleMoveClamp, clamp]
  have : L.hard > 0 := by omega
  rw [if_pos this]
  simp only
  omega

end Tm
