/-!
# Time allocation (property C06)

Executable model of `EngineControl::computeTimeLimit` (app/texel/enginecontrol.cpp), of the single-legal-move
clamp in `EngineControl::startThread`, of what `startSearch` / `startPonder` / `ponderHit` / `stopThread` hand to
`Search::timeLimit`, written field by field.

C++ `int` arithmetic is modelled by `Int` with `Int.tdiv` for `/` (truncation towards zero); overflow is outside the
property's domain (clock ≤ 10^7 ms, increment ≤ 10^5 ms, at most 200 moves).

The two floating-point steps of the C++ code are *parameters* of the model (`FP`):
* `bonus oTimeLimit timeLimit rate` = `(int)(std::min(oTimeLimit, timeLimit / (1 - k)) * k)` with `k = rate * 0.01`
* `scale minT moves maxUsage`      = `(int)(minT * clamp(moves * 0.5, 2.0, maxUsage * 0.01))`
The theorems need nothing about `bonus` and only `FP.ScaleOk` about `scale` (see below).  `Drv/Time.lean`
instantiates `FP` with IEEE doubles (Lean `Float`) for the differential run against the real code, and `fpExact`
below is the exact rational instance, for which `ScaleOk` is proved.
-/
namespace Tm

def clamp (v lo hi : Int) : Int := min (max v lo) hi

/-- Time management parameters (lib/texellib/parameters.hpp:441-445). -/
structure Params where
  maxRem : Int      -- timeMaxRemainingMoves, declared range 2..200, default 35
  buffer : Int      -- BufferTime (UCI option), 1..10000, default 1000
  maxUsage : Int    -- maxTimeUsage, 100..1000, default 400
  ponderRate : Int  -- timePonderHitRate, 0..99, default 35
  minUsage : Int    -- minTimeUsage, 1..100, default 85
  deriving Repr

def Params.default : Params := { maxRem := 35, buffer := 1000, maxUsage := 400, ponderRate := 35, minUsage := 85 }

/-- The declared parameter ranges. -/
def Params.Ok (p : Params) : Prop :=
  2 ≤ p.maxRem ∧ p.maxRem ≤ 200 ∧ 1 ≤ p.buffer ∧ p.buffer ≤ 10000 ∧ 100 ≤ p.maxUsage ∧ p.maxUsage ≤ 1000 ∧
  0 ≤ p.ponderRate ∧ p.ponderRate ≤ 99 ∧ 1 ≤ p.minUsage ∧ p.minUsage ≤ 100

/-- The floating-point steps, abstracted. -/
structure FP where
  bonus : (oTimeLimit timeLimit rate : Int) → Int
  scale : (minT moves maxUsage : Int) → Int

/-- The only fact about floating point the theorems use: scaling a positive time by the factor
    `clamp(moves*0.5, 2.0, maxUsage*0.01)` does not make it smaller.  True for IEEE doubles because the factor is
    `≥ 1.0` when `maxUsage ≥ 100` (`100 * 0.01` rounds to exactly `1.0`, and `x ↦ x * 0.01` is monotone), multiplication
    by a factor `≥ 1.0` is monotone and `m * 1.0 = m` exactly, and truncation of a double `≥ m` is `≥ m`. -/
def FP.ScaleOk (fp : FP) : Prop := ∀ m moves mu : Int, 1 ≤ m → 100 ≤ mu → m ≤ fp.scale m moves mu

/-- The arguments of `go` (class SearchParams). -/
structure Go where
  wTime : Int := 0
  bTime : Int := 0
  wInc : Int := 0
  bInc : Int := 0
  movesToGo : Int := 0
  depth : Int := 0
  nodes : Int := 0
  mate : Int := 0
  moveTime : Int := 0
  infinite : Bool := false
  deriving Repr

/-- The five members `computeTimeLimit` sets. -/
structure Alloc where
  minT : Int
  maxT : Int
  early : Int
  maxDepth : Int
  maxNodes : Int
  deriving Repr, DecidableEq

/-- `moves`: moves-to-go, 0 meaning "sudden death" (999), capped by `timeMaxRemainingMoves`. -/
def movesEff (mtg maxRem : Int) : Int := min (if mtg = 0 then 999 else mtg) maxRem

/-- `margin = std::min(bufferTime, time * 9 / 10)`. -/
def margin (buffer time : Int) : Int := min buffer ((time * 9).tdiv 10)

/-- The clock budget as the code defines it: `time - margin`. -/
def budget (buffer time : Int) : Int := time - margin buffer time

/-- `timeLimit = (time + inc * (moves - 1) - margin) / moves`. -/
def timeLimit0 (time inc moves mg : Int) : Int := (time + inc * (moves - 1) - mg).tdiv moves

/-- `minTimeLimit` before the clamp (with the ponder bonus if the Ponder option is on). -/
def clockMin0 (fp : FP) (p : Params) (time inc oTime oInc mtg : Int) (ponderOpt : Bool) : Int :=
  let moves := movesEff mtg p.maxRem
  let mg := margin p.buffer time
  let tl := timeLimit0 time inc moves mg
  if ponderOpt then tl + fp.bonus (timeLimit0 oTime oInc moves mg) tl p.ponderRate else tl

/-- `maxTimeLimit` before the clamp. -/
def clockMax0 (fp : FP) (p : Params) (time inc oTime oInc mtg : Int) (ponderOpt : Bool) : Int :=
  fp.scale (clockMin0 fp p time inc oTime oInc mtg ponderOpt) (movesEff mtg p.maxRem) p.maxUsage

def clockSoft (fp : FP) (p : Params) (time inc oTime oInc mtg : Int) (ponderOpt : Bool) : Int :=
  clamp (clockMin0 fp p time inc oTime oInc mtg ponderOpt) 1 (budget p.buffer time)

def clockHard (fp : FP) (p : Params) (time inc oTime oInc mtg : Int) (ponderOpt : Bool) : Int :=
  clamp (clockMax0 fp p time inc oTime oInc mtg ponderOpt) 1 (budget p.buffer time)

/-- `maxDepth` from `depth` and `mate`. -/
def depthLimit (g : Go) : Int :=
  let d := if g.depth > 0 then g.depth else -1
  if g.mate > 0 then (if d = -1 then g.mate * 2 - 1 else min d (g.mate * 2 - 1)) else d

def nodeLimit (g : Go) : Int := if g.nodes > 0 then g.nodes else -1

def moverTime (white : Bool) (g : Go) : Int := if white then g.wTime else g.bTime
def moverInc (white : Bool) (g : Go) : Int := if white then g.wInc else g.bInc
def otherTime (white : Bool) (g : Go) : Int := if white then g.bTime else g.wTime
def otherInc (white : Bool) (g : Go) : Int := if white then g.bInc else g.wInc

/-- Which branch of `computeTimeLimit` is taken. -/
inductive Mode | infinite | moveTime | clock | none
  deriving DecidableEq, Repr

def mode (g : Go) : Mode :=
  if g.infinite then .infinite
  else if g.moveTime > 0 then .moveTime
  else if g.wTime ≠ 0 ∨ g.bTime ≠ 0 then .clock
  else .none

/-- `EngineControl::computeTimeLimit`; `white` = side to move, `ponderOpt` = UCI option Ponder. -/
def compute (fp : FP) (p : Params) (white ponderOpt : Bool) (g : Go) : Alloc :=
  match mode g with
  | .infinite => { minT := -1, maxT := -1, early := -1, maxDepth := -1, maxNodes := -1 }
  | .moveTime => { minT := g.moveTime, maxT := g.moveTime, early := 10000, maxDepth := depthLimit g, maxNodes := nodeLimit g }
  | .clock =>
    { minT := clockSoft fp p (moverTime white g) (moverInc white g) (otherTime white g) (otherInc white g) g.movesToGo ponderOpt
      maxT := clockHard fp p (moverTime white g) (moverInc white g) (otherTime white g) (otherInc white g) g.movesToGo ponderOpt
      early := -1, maxDepth := depthLimit g, maxNodes := nodeLimit g }
  | .none => { minT := -1, maxT := -1, early := -1, maxDepth := depthLimit g, maxNodes := nodeLimit g }

/-- The time budget of a `go`: the fixed move time, resp. the mover's clock minus the margin. -/
def goBudget (p : Params) (white : Bool) (g : Go) : Int :=
  if g.moveTime > 0 then g.moveTime else budget p.buffer (moverTime white g)

/-- A `go` with a time control inside the property's domain: not `infinite`, and a move time or a positive clock of the mover. -/
def Go.Timed (g : Go) (white : Bool) : Prop := g.infinite = false ∧ (g.moveTime > 0 ∨ 1 ≤ moverTime white g)

/-! ## What is handed to `Search::timeLimit` -/

/-- The limits as `Search` stores them (`minTimeMillis`, `maxTimeMillis`, `earlyStopPercentage`). -/
structure Lim where
  minT : Int
  maxT : Int
  early : Int
  deriving Repr, DecidableEq

/-- `Search::timeLimit`: `earlyStopPercentage = earlyStopPercent > 0 ? earlyStopPercent : minTimeUsage`. -/
def storeLim (p : Params) (minT maxT early : Int) : Lim :=
  { minT := minT, maxT := maxT, early := if early > 0 then early else p.minUsage }

/-- `startSearch`: `infinite = maxTimeLimit < 0 && maxDepth < 0 && maxNodes < 0`. -/
def isInfinite (a : Alloc) : Bool := decide (a.maxT < 0) && decide (a.maxDepth < 0) && decide (a.maxNodes < 0)

/-- `startThread`: `onePossibleMove = moves->size < 2 && !infinite`. -/
def onePossible (nMoves : Int) (infinite : Bool) : Bool := decide (nMoves < 2) && !infinite

/-- single-legal-move clamp of `startThread` (only when not pondering and `maxTimeLimit > 0`). -/
def singleMin (minT maxT : Int) : Int := if maxT > 0 then clamp (minT.tdiv 100) 1 100 else minT
def singleMax (maxT : Int) : Int := if maxT > 0 then clamp (maxT.tdiv 100) 1 100 else maxT
/-- and the depth cap when there is no time limit. -/
def singleDepth (maxT maxDepth : Int) : Int :=
  if maxT > 0 then maxDepth else if maxDepth < 0 ∨ maxDepth > 2 then 2 else maxDepth

/-- Limits handed to `Search::timeLimit` by `startSearch` (not pondering). -/
def startLim (p : Params) (a : Alloc) (nMoves : Int) : Lim :=
  if onePossible nMoves (isInfinite a) then storeLim p (singleMin a.minT a.maxT) (singleMax a.maxT) a.early
  else storeLim p a.minT a.maxT a.early

/-- `maxDepth` handed to the search by `startSearch`. -/
def startDepth (a : Alloc) (nMoves : Int) : Int :=
  if onePossible nMoves (isInfinite a) then singleDepth a.maxT a.maxDepth else a.maxDepth

/-- `startPonder` hands over no limits at all (`startThread(-1, -1, -1, -1, -1, …)`). -/
def ponderLim (p : Params) : Lim := storeLim p (-1) (-1) (-1)

/-- `ponderHit`: with one possible move both limits are cut to at most 1 ms. -/
def hitMin (minT : Int) (one : Bool) : Int := if one ∧ minT > 1 then 1 else minT
def hitMax (maxT : Int) (one : Bool) : Int := if one ∧ maxT > 1 then 1 else maxT
def ponderHitLim (p : Params) (a : Alloc) (nMoves : Int) : Lim :=
  storeLim p (hitMin a.minT (onePossible nMoves false)) (hitMax a.maxT (onePossible nMoves false)) a.early

/-- `stopThread`: `sc->timeLimit(0, 0)`. -/
def stopLim (p : Params) : Lim := storeLim p 0 0 (-1)

/-! ## Exact rational instance of the floating-point steps -/

/-- `(int)(m * clamp(moves/2, 2, mu/100))` in exact arithmetic (factor as hundredths). -/
def scaleExact (m moves mu : Int) : Int := (m * min (max (moves * 50) 200) mu).tdiv 100

/-- `(int)(min(o, tl/(1-k)) * k)`, `k = rate/100`, in exact arithmetic (compare `o` with `tl*100/(100-rate)` by
    cross-multiplication, `rate < 100`). -/
def bonusExact (o tl rate : Int) : Int :=
  if o * (100 - rate) ≤ tl * 100 then (o * rate).tdiv 100 else (tl * rate).tdiv (100 - rate)

def fpExact : FP := { bonus := bonusExact, scale := scaleExact }

theorem fpExact_scaleOk : fpExact.ScaleOk := by
  intro m moves mu hm hmu
  show m ≤ (m * min (max (moves * 50) 200) mu).tdiv 100
  have hf : 100 ≤ min (max (moves * 50) 200) mu := by omega
  generalize min (max (moves * 50) 200) mu = f at hf
  have h1 : m * 100 ≤ m * f := Int.mul_le_mul_of_nonneg_left hf (by omega)
  have h0 : 0 ≤ m * f := by omega
  rw [Int.tdiv_eq_ediv_of_nonneg h0]
  omega

/-! ## Lemmas -/

theorem margin_le (buffer time : Int) (ht : 1 ≤ time) : margin buffer time ≤ time * 9 / 10 := by
  unfold margin
  rw [Int.tdiv_eq_ediv_of_nonneg (by omega)]
  exact Int.min_le_right _ _

theorem margin_eq (buffer time : Int) (ht : 1 ≤ time) : margin buffer time = min buffer (time * 9 / 10) := by
  unfold margin
  rw [Int.tdiv_eq_ediv_of_nonneg (by omega)]

theorem budget_pos (buffer time : Int) (ht : 1 ≤ time) : 1 ≤ budget buffer time := by
  have := margin_le buffer time ht
  unfold budget; omega

/-- Core of `limits_ok`: the two clamps, for an arbitrary unclamped soft value. -/
theorem clamp_pair_ok (m0 m1 B : Int) (hB : 1 ≤ B) (h : 1 ≤ m0 → m0 ≤ m1) :
    1 ≤ clamp m0 1 B ∧ clamp m0 1 B ≤ clamp m1 1 B ∧ clamp m1 1 B ≤ B := by
  unfold clamp
  by_cases h1 : 1 ≤ m0
  · have := h h1; omega
  · omega

theorem clock_ok (fp : FP) (p : Params) (time inc oTime oInc mtg : Int) (ponderOpt : Bool)
    (ht : 1 ≤ time) (hmu : 100 ≤ p.maxUsage) (hs : fp.ScaleOk) :
    1 ≤ clockSoft fp p time inc oTime oInc mtg ponderOpt ∧
    clockSoft fp p time inc oTime oInc mtg ponderOpt ≤ clockHard fp p time inc oTime oInc mtg ponderOpt ∧
    clockHard fp p time inc oTime oInc mtg ponderOpt ≤ budget p.buffer time := by
  unfold clockSoft clockHard clockMax0
  exact clamp_pair_ok _ _ _ (budget_pos _ _ ht) (fun h => hs _ _ _ h hmu)

/-- single-move clamp preserves `1 ≤ soft ≤ hard ≤ B`. -/
theorem single_ok (minT maxT B : Int) (h : 1 ≤ minT ∧ minT ≤ maxT ∧ maxT ≤ B) :
    1 ≤ singleMin minT maxT ∧ singleMin minT maxT ≤ singleMax maxT ∧ singleMax maxT ≤ B ∧ singleMax maxT ≤ 100 := by
  have hp : maxT > 0 := by omega
  simp only [singleMin, singleMax, if_pos hp, clamp]
  rw [Int.tdiv_eq_ediv_of_nonneg (by omega), Int.tdiv_eq_ediv_of_nonneg (by omega)]
  omega

theorem hit_ok (minT maxT B : Int) (one : Bool) (h : 1 ≤ minT ∧ minT ≤ maxT ∧ maxT ≤ B) :
    1 ≤ hitMin minT one ∧ hitMin minT one ≤ hitMax maxT one ∧ hitMax maxT one ≤ B := by
  unfold hitMin hitMax
  cases one <;> simp <;> (repeat' split) <;> omega

/-! ## The round-0 prototype of the clock branch

`alloc` / `alloc_ok` / `singleMoveClamp` / `singleMove_ok` are kept with their original definitions and signatures (Euclidean `/`,
bonus as a number, scale as a function): `Bridge/Time.lean` (translator tie, regenerated from enginecontrol.cpp) proves that the
integer slices of the C++ function compose to exactly `alloc`.  `alloc_eq_clock` connects `alloc` with the model above on the
property's domain (where truncating and Euclidean division agree). -/

structure Limits where
  soft : Int
  hard : Int

/-- clock branch.  `bonus` = the floating-point ponder bonus (arbitrary), `scale` = `(int)(min * clamp(moves*0.5, 2.0, maxTimeUsage*0.01))`
    abstracted to a function with the single property used below. -/
def alloc (time inc movesToGo maxRem buffer bonus : Int) (scale : Int → Int) : Limits :=
  let moves0 := if movesToGo = 0 then 999 else movesToGo
  let moves := min moves0 maxRem
  let margin := min buffer (time * 9 / 10)
  let timeLimit := (time + inc * (moves - 1) - margin) / moves
  let min0 := timeLimit + bonus
  let max0 := scale min0
  { soft := clamp min0 1 (time - margin), hard := clamp max0 1 (time - margin) }

theorem alloc_ok (time inc movesToGo maxRem buffer bonus : Int) (scale : Int → Int)
    (ht : 1 ≤ time) (_hb : 1 ≤ buffer) (hscale : ∀ m, 1 ≤ m → m ≤ scale m) :
    let L := alloc time inc movesToGo maxRem buffer bonus scale
    let budget := time - min buffer (time * 9 / 10)
    1 ≤ L.soft ∧ L.soft ≤ L.hard ∧ L.hard ≤ budget := by
  simp only [alloc]
  have hm : min buffer (time * 9 / 10) ≤ time * 9 / 10 := Int.min_le_right _ _
  exact clamp_pair_ok _ _ _ (by omega) (hscale _)

/-- startThread: one legal move and not pondering -/
def singleMoveClamp (L : Limits) : Limits :=
  if L.hard > 0 then { soft := clamp (L.soft / 100) 1 100, hard := clamp (L.hard / 100) 1 100 } else L

theorem singleMove_ok (L : Limits) (B : Int) (h : 1 ≤ L.soft ∧ L.soft ≤ L.hard ∧ L.hard ≤ B) :
    let L' := singleMoveClamp L
    1 ≤ L'.soft ∧ L'.soft ≤ L'.hard ∧ L'.hard ≤ B := by
  simp only [singleMoveClamp, clamp]
  have : L.hard > 0 := by omega
  rw [if_pos this]
  simp only
  omega

/-- The bonus `computeTimeLimit` adds when the Ponder option is on, as a number for `alloc`. -/
def ponderBonus (fp : FP) (p : Params) (time inc oTime oInc mtg : Int) (ponderOpt : Bool) : Int :=
  if ponderOpt then
    fp.bonus (timeLimit0 oTime oInc (movesEff mtg p.maxRem) (margin p.buffer time))
      (timeLimit0 time inc (movesEff mtg p.maxRem) (margin p.buffer time)) p.ponderRate
  else 0

/-- On the property's domain (`time, inc, movesToGo ≥ 0`, `timeMaxRemainingMoves ≥ 1`) the prototype `alloc` — the function the
    translated C++ slices compose to — is the clock branch of the model. -/
theorem alloc_eq_clock (fp : FP) (p : Params) (time inc oTime oInc mtg : Int) (ponderOpt : Bool)
    (ht : 0 ≤ time) (hi : 0 ≤ inc) (hm : 0 ≤ mtg) (hr : 1 ≤ p.maxRem) :
    let L := alloc time inc mtg p.maxRem p.buffer (ponderBonus fp p time inc oTime oInc mtg ponderOpt)
               (fun m => fp.scale m (movesEff mtg p.maxRem) p.maxUsage)
    L.soft = clockSoft fp p time inc oTime oInc mtg ponderOpt ∧ L.hard = clockHard fp p time inc oTime oInc mtg ponderOpt := by
  have hmg : margin p.buffer time = min p.buffer (time * 9 / 10) := by
    unfold margin; rw [Int.tdiv_eq_ediv_of_nonneg (by omega)]
  have hmv : movesEff mtg p.maxRem = min (if mtg = 0 then 999 else mtg) p.maxRem := rfl
  have hmv1 : 1 ≤ movesEff mtg p.maxRem := by rw [hmv]; split <;> omega
  have hprod : 0 ≤ inc * (movesEff mtg p.maxRem - 1) := Int.mul_nonneg hi (by omega)
  have hle : min p.buffer (time * 9 / 10) ≤ time := by
    have : min p.buffer (time * 9 / 10) ≤ time * 9 / 10 := Int.min_le_right _ _
    omega
  have htl : timeLimit0 time inc (movesEff mtg p.maxRem) (margin p.buffer time)
      = (time + inc * (movesEff mtg p.maxRem - 1) - min p.buffer (time * 9 / 10)) / movesEff mtg p.maxRem := by
    unfold timeLimit0; rw [hmg, Int.tdiv_eq_ediv_of_nonneg (by omega)]
  have hmin : clockMin0 fp p time inc oTime oInc mtg ponderOpt
      = (time + inc * (movesEff mtg p.maxRem - 1) - min p.buffer (time * 9 / 10)) / movesEff mtg p.maxRem
        + ponderBonus fp p time inc oTime oInc mtg ponderOpt := by
    unfold clockMin0 ponderBonus
    cases ponderOpt <;> simp [htl]
  simp only [alloc, clockSoft, clockHard, clockMax0, budget, hmin, hmg, ← hmv]
  exact ⟨trivial, trivial⟩

end Tm
