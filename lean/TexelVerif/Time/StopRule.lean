import TexelVerif.Time.Alloc
/-!
# The stop rule (property C06)

* `timeStop`, `nodeStop`, `npsSleep` : the body of `Search::shouldStop` (lib/texellib/search.cpp:436-471) as a function of
  the virtual clock, the stored limits, `searchNeedMoreTime`, and `x = (S64)(minTimeMillis * hardFactor)` (the one
  floating-point step, abstracted: the theorems only use `0 ≤ x`, true because `hardFactor ∈ [0.3, 3.5]` by
  search.cpp:266-274 and the two `std::max(hardFactor, 1.0 / 2.0)` updates).
* `rootStop` : the time test between root moves (search.cpp:254-261).
* `Th`, `Ev`, `step`, `run` : the main search thread as a sequence of events "one node searched (costs `d` ms of virtual
  time)", "shouldStop evaluated (and, when it does not stop, the MaxNPS throttle sleeps `slp` ms)", "root-move time test",
  "search ends for another reason".  Once stopped nothing moves any more, so `now` of the final state is the time at which
  the search stopped (the best move is produced without searching further nodes).
* `Disc N τ S` : the polling discipline — at most `N` nodes between two evaluations of `shouldStop`, every node costs
  between 0 and `τ`, every throttle sleep between 0 and `S`, every `x ≥ 0`.
* `run_bound` : under the discipline, with limits `0 ≤ minT ≤ maxT` in force from time `t0` on, the thread is stopped
  no later than `max t0 (tStart + maxT) + S + N·τ`.

The three relaxed-atomic stores of `Search::timeLimit` are modelled as one atomic step (the bound counts from the last store).
-/
namespace Tm

/-- `minT` as adjusted in `shouldStop`: `if (minT >= 0 && earlyStopPercentage <= 100) minT = min((S64)(minT*hardFactor), maxT)`. -/
def softNow (l : Lim) (x : Int) : Int := if 0 ≤ l.minT ∧ l.early ≤ 100 then min x l.maxT else l.minT

/-- `timeLimit = searchNeedMoreTime ? maxT : minT`. -/
def effLimit (l : Lim) (need : Bool) (x : Int) : Int := if need then l.maxT else softNow l x

/-- `(timeLimit >= 0) && (tNow - tStart >= timeLimit)`. -/
def timeStop (elapsed : Int) (l : Lim) (need : Bool) (x : Int) : Bool :=
  decide (0 ≤ effLimit l need x ∧ effLimit l need x ≤ elapsed)

/-- `(maxNodes >= 0) && (getTotalNodes() >= maxNodes)`. -/
def nodeStop (maxNodes totNodes : Int) : Bool := decide (0 ≤ maxNodes ∧ maxNodes ≤ totNodes)

def shouldStop (elapsed : Int) (l : Lim) (need : Bool) (x maxNodes totNodes : Int) : Bool :=
  timeStop elapsed l need x || nodeStop maxNodes totNodes

/-- MaxNPS throttle after a non-stopping test: `if (totNodes*1000.0 > maxNPS*max(1,time)) sleep(totNodes*1000/maxNPS - time)`. -/
def npsSleep (maxNPS elapsed totNodes : Int) : Int :=
  if maxNPS > 0 ∧ totNodes * 1000 > maxNPS * max 1 elapsed then max 0 ((totNodes * 1000).tdiv maxNPS - elapsed) else 0

/-- `Search::setStrength`: `nodesBetweenTimeCheck = maxNPS > 0 ? clamp(maxNPS / 100, 1, 1000) : 1000`. -/
def nodesBetweenTimeCheck (maxNPS : Int) : Int := if maxNPS > 0 then clamp (maxNPS.tdiv 100) 1 1000 else 1000

/-- Time test between root moves: `timeLimit = needMoreTime ? maxT : minT; timeLimit >= 0 && tNow - tStart >= timeLimit`. -/
def rootStop (elapsed : Int) (l : Lim) (need : Bool) : Bool :=
  decide (0 ≤ (if need then l.maxT else l.minT) ∧ (if need then l.maxT else l.minT) ≤ elapsed)

theorem softNow_ok (l : Lim) (x : Int) (hl : 0 ≤ l.minT ∧ l.minT ≤ l.maxT) (hx : 0 ≤ x) :
    0 ≤ softNow l x ∧ softNow l x ≤ l.maxT := by
  unfold softNow; split <;> omega

/-- Whatever `searchNeedMoreTime` and `hardFactor` are, the limit the test uses is between 0 and the hard limit. -/
theorem effLimit_ok (l : Lim) (need : Bool) (x : Int) (hl : 0 ≤ l.minT ∧ l.minT ≤ l.maxT) (hx : 0 ≤ x) :
    0 ≤ effLimit l need x ∧ effLimit l need x ≤ l.maxT := by
  have := softNow_ok l x hl hx
  unfold effLimit; split <;> omega

/-- A test evaluated at or after the hard limit stops the search. -/
theorem timeStop_of_late (elapsed : Int) (l : Lim) (need : Bool) (x : Int) (hl : 0 ≤ l.minT ∧ l.minT ≤ l.maxT)
    (hx : 0 ≤ x) (h : l.maxT ≤ elapsed) : timeStop elapsed l need x = true := by
  have := effLimit_ok l need x hl hx
  simp only [timeStop, decide_eq_true_eq]; omega

/-- A test that does not stop was evaluated strictly before the hard limit. -/
theorem early_of_not_timeStop (elapsed : Int) (l : Lim) (need : Bool) (x : Int) (hl : 0 ≤ l.minT ∧ l.minT ≤ l.maxT)
    (hx : 0 ≤ x) (h : timeStop elapsed l need x = false) : elapsed < l.maxT := by
  have := effLimit_ok l need x hl hx
  simp only [timeStop, decide_eq_false_iff_not] at h; omega

/-- Without limits (`-1, -1`: pondering, `go infinite`, depth/node-only searches) the time test never stops the search. -/
theorem timeStop_unlimited (elapsed : Int) (l : Lim) (need : Bool) (x : Int) (h1 : l.minT = -1) (h2 : l.maxT = -1) :
    timeStop elapsed l need x = false := by
  simp only [timeStop, effLimit, softNow, h1, h2, decide_eq_false_iff_not]
  split <;> (try split) <;> omega

/-! ## Thread model -/

inductive Ev
  | tick (d : Int)
  | poll (need : Bool) (x slp : Int)
  | root (need : Bool)
  | finish
  deriving Repr

structure Th where
  now : Int
  stopped : Bool
  deriving Repr

def step (tStart : Int) (l : Lim) (s : Th) : Ev → Th
  | .tick d => if s.stopped then s else { s with now := s.now + d }
  | .poll need x slp =>
    if s.stopped then s
    else if timeStop (s.now - tStart) l need x then { s with stopped := true }
    else { s with now := s.now + slp }
  | .root need => if s.stopped then s else if rootStop (s.now - tStart) l need then { s with stopped := true } else s
  | .finish => { s with stopped := true }

def run (tStart : Int) (l : Lim) (s : Th) (evs : List Ev) : Th := evs.foldl (step tStart l) s

/-- Polling discipline; the `Nat` argument counts the nodes since the last evaluation of `shouldStop`. -/
def Disc (N : Nat) (τ S : Int) : Nat → List Ev → Prop
  | _, [] => True
  | c, .tick d :: r => 0 ≤ d ∧ d ≤ τ ∧ c + 1 ≤ N ∧ Disc N τ S (c + 1) r
  | _, .poll _ x slp :: r => 0 ≤ x ∧ 0 ≤ slp ∧ slp ≤ S ∧ Disc N τ S 0 r
  | c, .root _ :: r => Disc N τ S c r
  | c, .finish :: r => Disc N τ S c r

theorem step_stopped (tStart : Int) (l : Lim) (s : Th) (e : Ev) (h : s.stopped = true) : step tStart l s e = s := by
  cases e <;> simp [step, h]
  cases s; simp_all

theorem run_stopped (tStart : Int) (l : Lim) (evs : List Ev) (s : Th) (h : s.stopped = true) : run tStart l s evs = s := by
  induction evs with
  | nil => rfl
  | cons e r ih => simp only [run, List.foldl_cons, step_stopped tStart l s e h]; exact ih

theorem run_cons (tStart : Int) (l : Lim) (s : Th) (e : Ev) (r : List Ev) :
    run tStart l s (e :: r) = run tStart l (step tStart l s e) r := rfl

theorem run_append (tStart : Int) (l : Lim) (s : Th) (a b : List Ev) :
    run tStart l s (a ++ b) = run tStart l (run tStart l s a) b := by
  simp [run, List.foldl_append]

/-- Main invariant.  `B` is any time not before `tStart + maxT`; `c` nodes have been searched since the last test. -/
theorem run_bound (tStart : Int) (l : Lim) (N : Nat) (τ S B : Int) (hτ : 0 ≤ τ)
    (hl : 0 ≤ l.minT ∧ l.minT ≤ l.maxT) (hB : tStart + l.maxT ≤ B) :
    ∀ (evs : List Ev) (s : Th) (c : Nat), Disc N τ S c evs → c ≤ N →
      (s.stopped = true → s.now ≤ B + S + N * τ) → (s.stopped = false → s.now ≤ B + S + c * τ) →
      (run tStart l s evs).now ≤ B + S + N * τ := by
  intro evs
  induction evs with
  | nil =>
    intro s c _ hc h1 h2
    simp only [run, List.foldl_nil]
    cases hs : s.stopped with
    | true => exact h1 hs
    | false =>
      have := h2 hs
      have : (c : Int) * τ ≤ N * τ := Int.mul_le_mul_of_nonneg_right (by omega) hτ
      omega
  | cons e r ih =>
    intro s c hd hc h1 h2
    rw [run_cons]
    have hcN : (c : Int) * τ ≤ N * τ := Int.mul_le_mul_of_nonneg_right (by omega) hτ
    cases hs : s.stopped with
    | true =>
      rw [step_stopped tStart l s e hs, run_stopped tStart l r s hs]; exact h1 hs
    | false =>
      have h2' := h2 hs
      cases e with
      | tick d =>
        simp only [Disc] at hd
        obtain ⟨hd0, hd1, hcn, hr⟩ := hd
        apply ih _ (c + 1) hr hcn
        · intro h; simp [step, hs] at h
        · intro _; simp only [step, hs]
          have : ((c + 1 : Nat) : Int) * τ = c * τ + τ := by rw [Int.natCast_add, Int.add_mul]; omega
          simp only [Bool.false_eq_true, ↓reduceIte]
          omega
      | poll need x slp =>
        simp only [Disc] at hd
        obtain ⟨hx, hs0, hs1, hr⟩ := hd
        cases ht : timeStop (s.now - tStart) l need x with
        | true =>
          apply ih _ 0 hr (by omega)
          · intro _; simp only [step, hs, ht, Bool.false_eq_true, ↓reduceIte]; omega
          · intro h; simp [step, hs, ht] at h
        | false =>
          have he := early_of_not_timeStop _ l need x hl hx ht
          apply ih _ 0 hr (by omega)
          · intro h; simp [step, hs, ht] at h
          · intro _; simp only [step, hs, ht, Bool.false_eq_true, ↓reduceIte]; omega
      | root need =>
        simp only [Disc] at hd
        cases ht : rootStop (s.now - tStart) l need with
        | true =>
          apply ih _ c hd hc
          · intro _; simp only [step, hs, ht, Bool.false_eq_true, ↓reduceIte]; omega
          · intro h; simp [step, hs, ht] at h
        | false =>
          apply ih _ c hd hc
          · intro h; simp [step, hs, ht] at h
          · intro _; simp only [step, hs, ht, Bool.false_eq_true, ↓reduceIte]; omega
      | finish =>
        simp only [Disc] at hd
        apply ih _ c hd hc
        · intro _; simp only [step]; omega
        · intro h; simp [step] at h

/-- A `shouldStop` evaluated at or after the hard limit ends the search, whatever happened before and happens after. -/
theorem late_poll_stops (tStart : Int) (l : Lim) (s : Th) (pre suf : List Ev) (need : Bool) (x slp : Int)
    (hl : 0 ≤ l.minT ∧ l.minT ≤ l.maxT) (hx : 0 ≤ x)
    (hlate : tStart + l.maxT ≤ (run tStart l s pre).now) :
    (run tStart l s (pre ++ .poll need x slp :: suf)).stopped = true := by
  rw [run_append, run_cons]
  have hst : (step tStart l (run tStart l s pre) (.poll need x slp)).stopped = true := by
    cases h : (run tStart l s pre).stopped with
    | true => simp [step, h]
    | false =>
      have := timeStop_of_late ((run tStart l s pre).now - tStart) l need x hl hx (by omega)
      simp [step, h, this]
  rw [run_stopped _ _ _ _ hst]; exact hst

/-! ## The wait loop of `EngineMainThread::doSearch` -/

/-- `while (*ponder || *infinite) sleep(10 ms)` entered when the search stopped at `ts`, flags cleared at `tf`:
    the loop tests the flags at `ts, ts + q, ts + 2q, …` and leaves at the first test not before `tf`. -/
def waitLoopExit (ts tf q : Int) : Int := if tf ≤ ts then ts else ts + q * ((tf - ts + q - 1) / q)

theorem waitLoopExit_ge (ts tf q : Int) (hq : 0 < q) : ts ≤ waitLoopExit ts tf q ∧ tf ≤ waitLoopExit ts tf q := by
  unfold waitLoopExit
  split
  · omega
  · have h1 := Int.emod_nonneg (tf - ts + q - 1) (Int.ne_of_gt hq)
    have h2 := Int.emod_lt_of_pos (tf - ts + q - 1) hq
    have h3 := Int.mul_ediv_add_emod (tf - ts + q - 1) q
    omega

theorem waitLoopExit_le (ts tf q : Int) (hq : 0 < q) : waitLoopExit ts tf q ≤ max ts (tf + q - 1) := by
  unfold waitLoopExit
  split
  · omega
  · have h1 := Int.emod_nonneg (tf - ts + q - 1) (Int.ne_of_gt hq)
    have h3 := Int.mul_ediv_add_emod (tf - ts + q - 1) q
    omega

end Tm
