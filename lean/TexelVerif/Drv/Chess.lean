import TexelVerif.Chess.GenCheck
import TexelVerif.Chess.Geometry
import TexelVerif.Chess.Line
import TexelVerif.Chess.TexelGen
import TexelVerif.Chess.TexelGenMore
import TexelVerif.Drv.Util
/-! Line protocol for the chess specification (properties C01, C02, C17 …). -/
namespace Drv.Chess
open _root_.Chess Drv

def parseSq? (c0 c1 : Char) : Option Sq := mkSq? ((c0.toNat : Int) - 97) ((c1.toNat : Int) - 49)

def parseUci? (w : Bool) (s : String) : Option Mv :=
  match s.toList with
  | [a, b, c, d] => do let f ← parseSq? a b; let t ← parseSq? c d; pure { f := f, t := t, promo := 0 }
  | [a, b, c, d, e] => do
    let f ← parseSq? a b; let t ← parseSq? c d
    let k : UInt8 ← (match e with | 'q' => some 2 | 'r' => some 3 | 'b' => some 4 | 'n' => some 5 | _ => none)
    pure { f := f, t := t, promo := if w then k else k + 6 }
  | _ => none

def parseBits? (s : String) : Option (List Bool) :=
  if s == "-" then some [] else s.toList.mapM fun c => if c == '1' then some true else if c == '0' then some false else none

def mvLt (a b : Mv) : Bool := mvToUci a < mvToUci b
def showMoves (l : List Mv) : String := " ".intercalate ((l.map mvToUci).toArray.qsort (· < ·)).toList

/-- split `xs` at section markers: returns the tokens up to the next marker in `marks` and the rest (marker included) -/
def takeSection (xs : List String) (marks : List String) : List String × List String :=
  xs.span fun x => !marks.contains x

def marks : List String := ["P", "L", "G", "R", "E", "C", "K"]

def parseGenData (w : Bool) (toks : List String) : Option GenData := do
  match toks with
  | inchk :: "P" :: rest =>
    let (ps, rest) := takeSection rest marks
    match rest with
    | "L" :: l :: "G" :: g :: "R" :: rest =>
      let (rs, rest) := takeSection rest marks
      match rest with
      | "E" :: rest =>
        let (es, rest) := takeSection rest marks
        match rest with
        | "C" :: rest =>
          let (cs, rest) := takeSection rest marks
          match rest with
          | "K" :: ks =>
            let pm ← ps.mapM (parseUci? w); let rm ← rs.mapM (parseUci? w); let em ← es.mapM (parseUci? w)
            let cm ← cs.mapM (parseUci? w); let km ← ks.mapM (parseUci? w)
            let lv ← parseBits? l; let gv ← parseBits? g
            pure { inChk := inchk == "1", pseudo := pm, legalV := lv, givesV := gv, removed := rm, ev := em, caps := cm, cc := km }
          | _ => none
        | _ => none
      | _ => none
    | _ => none
  | _ => none

def fenOf (toks : List String) : String := " ".intercalate toks

/-- moves in list order (the order is part of the comparison with the C++ generator) -/
def showOrdered (l : List Mv) : String := " ".intercalate (l.map mvToUci)
def showBits (l : List Bool) : String := if l.isEmpty then "-" else String.join (l.map b2s)
/-- sections joined by single spaces, empty ones dropped (as the harness normalises double spaces) -/
def joinSecs (l : List String) : String := " ".intercalate (l.filter fun s => s != "")

/-- the model of Texel's generator run on one position: same line as the harness op `chess tmg` -/
def texelDump (p : Pos) (k ok : Sq) : String :=
  let inChk := Texel.inCheckK p.b p.wtm k
  let ps := Texel.pseudoLegalMoves p k
  let lv := ps.map fun m => Texel.isLegal p k m inChk
  let gv := ps.map fun m => Texel.givesCheck p ok m
  let rm := Texel.removeIllegal p k ps
  let ev := if inChk then Texel.checkEvasions p k else []
  joinSecs [b2s inChk, "P", showOrdered ps, "L", showBits lv, "G", showBits gv, "R", showOrdered rm,
    "E", showOrdered ev, "C", showOrdered (Texel.pseudoLegalCaptures p k), "K", showOrdered (Texel.pseudoLegalCapturesAndChecks p k ok)]

def modelAtk (pc : Nat) (s : Sq) (occ : Nat) : PosImpl.BB :=
  let o : PosImpl.BB := BitVec.ofNat 64 occ
  match pc with
  | 1 | 7 => Texel.kingAttacks s
  | 2 | 8 => Texel.rookAttacks s o ||| Texel.bishopAttacks s o
  | 3 | 9 => Texel.rookAttacks s o
  | 4 | 10 => Texel.bishopAttacks s o
  | 5 | 11 => Texel.knightAttacks s
  | 6 => Texel.wPawnAttacks s
  | _ => Texel.bPawnAttacks s

def step (args : List String) : String :=
  match args with
  | "fen" :: rest =>
    match readFENRaw (fenOf rest) with
    | .ok r => "ok " ++ toFENWith r.b r.wtm r.castle r.ep r.hmc r.fmc
    | .error e => "err " ++ e.toString
  | "legal" :: rest =>
    match readFEN (fenOf rest) with
    | .ok p => s!"{b2s (inCheck p.b p.wtm)} " ++ showMoves (genLegal p)
    | .error e => "err " ++ e.toString
  | "perft" :: d :: rest =>
    match parseNat? d, readFEN (fenOf rest) with
    | some d, .ok p => s!"{perft p d}"
    | _, _ => "bad-op"
  | "mgchk" :: f1 :: f2 :: f3 :: f4 :: f5 :: f6 :: rest =>
    match readFEN (fenOf [f1, f2, f3, f4, f5, f6]) with
    | .error e => "err " ++ e.toString
    | .ok p =>
      match parseGenData p.wtm rest with
      | none => "bad-op"
      | some d =>
        match genCheck p d with
        | some why => "fail " ++ why
        | none =>
          let legal := genLegal p
          s!"ok legal={legal.length} caps={(legal.filter (capClass p)).length} cc={(legal.filter (ccClass p)).length} chk={b2s d.inChk}"
  | "line" :: f1 :: f2 :: f3 :: f4 :: f5 :: f6 :: moves =>
    -- audit of a PV / move sequence: every move must be legal in sequence
    match readFEN (fenOf [f1, f2, f3, f4, f5, f6]) with
    | .error e => "err " ++ e.toString
    | .ok p =>
      let rec go (p : Pos) (ms : List String) (i : Nat) : String :=
        match ms with
        | [] => s!"ok {i} " ++ toFEN p ++ s!" legal={(genLegal p).length} chk={b2s (inCheck p.b p.wtm)}"
        | s :: rest =>
          match parseUci? p.wtm s with
          | none => s!"illegal {i} {s}"
          | some m => if legalB p m then go (fixupEP (apply p m)) rest (i + 1) else s!"illegal {i} {s}"
      go p moves 0
  | "tmg" :: rest =>
    match readFEN (fenOf rest) with
    | .error e => "err " ++ e.toString
    | .ok p =>
      match kingSq p.b p.wtm, kingSq p.b (!p.wtm) with
      | some k, some ok =>
        if Texel.genWFb p k && Texel.kingsApartB p k && Texel.gcWFb p ok then texelDump p k ok
        else "err hypotheses-of-the-generator-theorems-fail"
      | _, _ => "err no-king"
  | ["tatk", pc, s, occ] =>
    match parseNat? pc, parseNat? s, parseNat? occ with
    | some pc, some s, some occ =>
      if h : s < 64 then
        if 1 ≤ pc ∧ pc ≤ 12 ∧ occ < 2^64 then hex (modelAtk pc ⟨s, h⟩ occ).toNat else "bad-op"
      else "bad-op"
    | _, _, _ => "bad-op"
  | ["imask", pc, s] =>
    match parseNat? pc, parseNat? s with
    | some pc, some s =>
      if h : s < 64 then
        if pc == 3 then hex (Texel.rookInner ⟨s, h⟩).toNat
        else if pc == 4 then hex (Texel.bishopInner ⟨s, h⟩).toNat else "bad-op"
      else "bad-op"
    | _, _ => "bad-op"
  | ["atk", pc, s, occ] =>
    match parseNat? pc, parseNat? s, parseNat? occ with
    | some pc, some s, some occ =>
      if h : s < 64 then
        if 1 ≤ pc ∧ pc ≤ 12 ∧ occ < 2^64 then hex (attackMask pc.toUInt8 ⟨s, h⟩ occ) else "bad-op"
      else "bad-op"
    | _, _, _ => "bad-op"
  | ["dir", a, b] =>
    match parseNat? a, parseNat? b with
    | some a, some b => if h : a < 64 ∧ b < 64 then s!"{direction ⟨a, h.1⟩ ⟨b, h.2⟩}" else "bad-op"
    | _, _ => "bad-op"
  | ["between", a, b] =>
    match parseNat? a, parseNat? b with
    | some a, some b => if h : a < 64 ∧ b < 64 then hex (between ⟨a, h.1⟩ ⟨b, h.2⟩) else "bad-op"
    | _, _ => "bad-op"
  | _ => "bad-op"

end Drv.Chess
