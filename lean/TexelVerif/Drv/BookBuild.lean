import TexelVerif.BookBuild.Link
import TexelVerif.BookBuild.Serial
import TexelVerif.Drv.Util
/-! Line protocol for the book-builder model (property C19).  Mirrors `harness/h_book.cpp` (`book ...` lines):
    every reply lists the nodes whose fields changed since the previous reply, sorted by hash key.
    The driver runs the repaired algorithm (`fixed := true`), i.e. the tree after the `fix:` commit. -/
namespace Drv.BookBuild
open Bk Drv

structure State where
  book : Option Book := none
  prev : Array Node := #[]
  prevPend : List Nat := []

def fixedVariant : Bool := true

def keyOf (b : Book) (i : Nat) : Nat := (b.nd i).key
def idOf? (b : Book) (key : Nat) : Option Nat := b.nodes.findIdx? (fun n => n.key == key)


def showLinks (b : Book) (l : List (Nat × Nat)) : String :=
  let ks := (l.map fun e => (e.1, keyOf b e.2)).toArray.qsort (fun a c => linkLt a c)
  ",".intercalate (ks.toList.map fun e => s!"{e.1}-{hex e.2}")

def showNode (b : Book) (i : Nat) : String :=
  let n := b.nd i
  s!"{hex n.key} {n.depth} {n.bestMove} {n.search} {n.time} {n.nm} {n.ecW} {n.ecB} {n.peW} {n.peB} {b2s (b.isPending i)} P:{showLinks b n.parents} C:{showLinks b n.children}"

def reply (st : State) (b : Book) (full : Bool) : State × String :=
  let ids := (List.range b.size).filter fun i =>
    full || i ≥ st.prev.size || st.prev.getD i default != b.nd i || st.prevPend.contains i != b.isPending i
  let sorted := (ids.map fun i => (keyOf b i, i)).toArray.qsort (fun a c => a.1 < c.1)
  let recs := sorted.toList.map fun e => " | " ++ showNode b e.2
  ({ book := some b, prev := b.nodes, prevPend := b.pending },
   s!"{if full then "dump" else "ok"} n={b.size} c={recs.length}" ++ String.join recs)

/-- `mv-0xkey,mv-0xkey` or `-`  →  (move, node index) list, sorted by (move, key) as the harness sorts them -/
def parseLinks (b : Book) (s : String) : Option (List (Nat × Nat)) :=
  if s == "-" then some [] else
  let items := s.splitOn ","
  let parsed := items.mapM fun it =>
    match it.splitOn "-" with
    | [m, k] => match parseNat? m, parseNat? k with
      | some m, some k => (idOf? b k).map fun i => ((m, k), i)
      | _, _ => none
    | _ => none
  parsed.map fun l => (l.toArray.qsort (fun a c => linkLt a.1 c.1)).toList.map fun e => (e.1.1, e.2)

structure Spec where
  parent : Nat
  key : Nat
  ps : List (Nat × Nat)
  cs : List (Nat × Nat)

/-- `<pkey> <uci> <nkey> P <links> C <links>` -/
def parseSpec (b : Book) (a : List String) : Option Spec :=
  match a with
  | [pk, _uci, nk, "P", pl, "C", cl] =>
    match parseNat? pk, parseNat? nk with
    | some pk, some nk =>
      match idOf? b pk, idOf? b nk, parseLinks b pl, parseLinks b cl with
      | some p, none, some ps, some cs => some { parent := p, key := nk, ps := ps, cs := cs }
      | _, _, _, _ => none
    | _, _ => none
  | _ => none

def splitSpecs : List String → Option (List (List String))
  | [] => some []
  | ";" :: rest =>
    let spec := rest.take 7
    if spec.length < 7 then none else (splitSpecs (rest.drop 7)).map (spec :: ·)
  | _ => none
termination_by l => l.length
decreasing_by simp [List.length_drop]; omega

def step (st : State) (args : List String) : State × String :=
  match args with
  | ["new", d, o, t, rootKey] =>   -- rootKey: the start position's book hash (the harness checks it)
    match parseInt? d, parseInt? o, parseInt? t, parseNat? rootKey with
    | some d, some o, some t, some rk =>
      if d < 0 ∨ o < 0 ∨ t < 0 ∨ d > 100000 ∨ o > 100000 ∨ t > 100000 then (st, "bad-op") else
      reply {} (Book.new rk { depthCost := d, ownCost := o, otherCost := t }) false
    | _, _, _, _ => (st, "bad-op")
  | _ =>
  match st.book with
  | none => (st, "bad-op")
  | some b =>
  match args with
  | ["nop"] => reply st b false
  | ["dump"] => reply st b true
  | "add" :: rest =>
    match parseSpec b rest with
    | some s => reply st (addPos fixedVariant b s.key s.ps s.cs) false
    | none => (st, "bad-op")
  | ["set", key, cm, score, time] =>
    match parseNat? key, parseInt? cm, parseInt? score, parseInt? time with
    | some key, some cm, some score, some time =>
      match idOf? b key with
      | some i =>
        if cm < 0 ∨ cm > 65535 ∨ score < -32768 ∨ score > 32767 ∨ time < 0 ∨ time > 4294967295 then (st, "bad-op")
        else reply st (setSearchResult fixedVariant b i cm.toNat score time.toNat) false
      | none => (st, "bad-op")
    | _, _, _, _ => (st, "bad-op")
  | ["pend", key] =>
    match (parseNat? key).bind (idOf? b) with
    | some i => reply st (addPending fixedVariant b i) false
    | none => (st, "bad-op")
  | ["unpend", key] =>
    match (parseNat? key).bind (idOf? b) with
    | some i => reply st (removePending fixedVariant b i) false
    | none => (st, "bad-op")
  | ["upd", key] =>
    match (parseNat? key).bind (idOf? b) with
    | some i => reply st (updateScores fixedVariant b i) false
    | none => (st, "bad-op")
  | ["reload"] => reply st (reload fixedVariant b) false
  | "import" :: maxPly :: _tok :: rest =>
    match parseInt? maxPly, splitSpecs rest with
    | some mp, some specs =>
      if mp < 0 ∨ mp > 1000 then (st, "bad-op") else
      let r := specs.foldl (fun (acc : Option Book) a => acc.bind fun b =>
        (parseSpec b a).map fun s => addPos fixedVariant b s.key s.ps s.cs) (some b)
      match r with
      | some b' => reply st b' false
      | none => (st, "bad-op")
    | _, _ => (st, "bad-op")
  | _ => (st, "bad-op")

def hex2 (n : Nat) : String := String.singleton (hexDigit (n / 16)) ++ String.singleton (hexDigit (n % 16))

def hexVal? (c : Char) : Option Nat :=
  if '0' ≤ c ∧ c ≤ '9' then some (c.toNat - '0'.toNat)
  else if 'a' ≤ c ∧ c ≤ 'f' then some (c.toNat - 'a'.toNat + 10) else none

def bytesOfHex? : List Char → Option (List Nat)
  | [] => some []
  | [_] => none
  | a :: b :: t => match hexVal? a, hexVal? b, bytesOfHex? t with
    | some x, some y, some r => some ((x * 16 + y) :: r)
    | _, _, _ => none

/-- `bookrec ...`: the serialisation kernels of `BookNode` -/
def stepRec (args : List String) : String :=
  match args with
  | ["ser", key, cm, score, time] =>
    match parseNat? key, parseInt? cm, parseInt? score, parseInt? time with
    | some key, some cm, some score, some time =>
      if key ≥ 2^64 ∨ cm < 0 ∨ cm > 65535 ∨ score < -32768 ∨ score > 32767 ∨ time < 0 ∨ time > 4294967295 then "bad-op"
      else String.join ((Rec.encode { key := key, move := cm.toNat, score := score, time := time.toNat }).map hex2)
    | _, _, _, _ => "bad-op"
  | ["deser", h] =>
    if h.length ≠ 32 then "bad-op" else
    match bytesOfHex? h.toList with
    | some bytes => match Rec.decode bytes with
      | some r => s!"{hex r.key} {r.move} {r.score} {r.time}"
      | none => "bad-op"
    | none => "bad-op"
  | _ => "bad-op"

end Drv.BookBuild
