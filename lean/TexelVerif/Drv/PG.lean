import TexelVerif.PG.Model
import TexelVerif.PG.Deadlock
import TexelVerif.Drv.Chess
/-! Line protocol for the proof-game kernels and the proof-game certificate checker (C16). -/
namespace Drv.PG
open _root_.Chess Drv Drv.Chess _root_.PG

def cntsOfList (l : List Int) : Pc → Int := fun a => l.getD (a.toNat - 1) 0

def parseBool? (s : String) : Option Bool := if s == "1" then some true else if s == "0" then some false else none

structure GameStats where
  promo : Nat := 0
  castle : Nat := 0
  epcap : Nat := 0
  eprights : Nat := 0
  captures : Nat := 0
  epcapAt : List Nat := []      -- ply indices of the positions in which an e.p. capture is played next
  castleAt : List Nat := []     -- ply indices of the positions in which the side to move castles next

def showIdx (l : List Nat) : String := if l.isEmpty then "-" else ",".intercalate (l.map toString)

def isEpCapture (p : Pos) (m : Mv) : Bool :=
  kind (p.at m.f) == 6 && p.ep == some m.t && p.at m.t == 0 && m.f.x != m.t.x

/-- play UCI moves from `p` under the specification; collects the FENs at the requested ply indices -/
partial def replay (p : Pos) (ms : List String) (i : Nat) (want : List Nat) (acc : List String) (st : GameStats) :
    Except String (Nat × Pos × List String × GameStats) :=
  let acc := if want.contains i then acc ++ [toFEN p] else acc
  match ms with
  | [] => .ok (i, p, acc, st)
  | s :: rest =>
    match parseUci? p.wtm s with
    | none => .error s!"illegal {i} {s}"
    | some m =>
      if legalB p m then
        let q := fixupEP (apply p m)
        let isK := kind (p.at m.f) == 1
        let st := { st with
          promo := st.promo + (if m.promo != 0 then 1 else 0),
          castle := st.castle + (if isK && (m.t.val == m.f.val + 2 || m.t.val + 2 == m.f.val) then 1 else 0),
          epcap := st.epcap + (if isEpCapture p m then 1 else 0),
          eprights := st.eprights + (if q.ep.isSome then 1 else 0),
          captures := st.captures + (if p.at m.t != 0 || isEpCapture p m then 1 else 0),
          epcapAt := if isEpCapture p m then st.epcapAt ++ [i] else st.epcapAt,
          castleAt := if isK && (m.t.val == m.f.val + 2 || m.t.val + 2 == m.f.val) then st.castleAt ++ [i] else st.castleAt }
        replay q rest (i + 1) want acc st
      else .error s!"illegal {i} {s}"

def step (args : List String) : String :=
  match args with
  | "counts" :: rest =>
    match allInt? rest with
    | some l =>
      if l.length != 12 || l.any (· < 0) || l.foldl (· + ·) 0 > 64 then "bad-op" else
      match validatePieceCounts (cntsOfList l) with
      | .ok => "ok" | .tooManyWhite => "white" | .tooManyBlack => "black"
    | none => "bad-op"
  | "enough" :: rest =>
    match allInt? rest with
    | some l =>
      if l.length != 24 || l.any (fun x => x < -1000000 || x > 1000000) then "bad-op" else
      b2s (enoughRemainingPieces (cntsOfList (l.take 12)) (cntsOfList (l.drop 12)))
    | none => "bad-op"
  | ["plies", a, b, f1, f2, f3, f4, f5, f6, g1, g2, g3, g4, g5, g6] =>
    -- the tail of distLowerBound for the pair (A, B) with computeNeededMoves' result replaced by (a, b)
    match parseInt? a, parseInt? b, readFEN (fenOf [f1, f2, f3, f4, f5, f6]), readFEN (fenOf [g1, g2, g3, g4, g5, g6]) with
    | some a, some b, .ok p, .ok q =>
      if a < -500000000 || a > 500000000 || b < -500000000 || b > 500000000 then "bad-op" else
      let nB : Int := (men false p.b : Int) - men false q.b
      let nW : Int := (men true p.b : Int) - men true q.b
      s!"{distCombine a b nB nW p.wtm q.wtm}"
    | _, _, _, _ => "bad-op"
  | ["deadlock", bm, f1, f2, f3, f4, f5, f6, g1, g2, g3, g4, g5, g6] =>
    -- ProofGame::computeDeadlockedPieces(P, G, blocked): the blocked mask afterwards and the verdict
    match bm.toNat?, readFEN (fenOf [f1, f2, f3, f4, f5, f6]), readFEN (fenOf [g1, g2, g3, g4, g5, g6]) with
    | some bm, .ok p, .ok g =>
      let B : Sq → Bool := fun q => bm.testBit q.val
      if bm ≥ 2 ^ 64 || allSq.any (fun q => B q && p.b[q] == 0) then "bad-op" else
      let nP := (allSq.filter fun q => p.b[q] != 0).length
      let nG := (allSq.filter fun q => g.b[q] != 0).length
      if nP > nG then s!"{bm} 1" else          -- "captures can break a deadlock"
      match deadlocked p.b B with
      | none => "fuel"
      | some D => s!"{maskOf fun q => B q || D q} {b2s (verdict p.b g.b D)}"
    | _, _, _ => "bad-op"
  | "check" :: f1 :: f2 :: f3 :: f4 :: f5 :: f6 :: sans =>
    match readFEN (fenOf [f1, f2, f3, f4, f5, f6]) with
    | .error e => "err " ++ e.toString
    | .ok target =>
      if checkSanGame sans target then s!"ok {sans.length}"
      else match firstBadSan startPos sans 0 with
        | some i => s!"fail illegal-or-ambiguous {i} {sans.getD i ""}"
        | none =>
          match playSan startPos sans with
          | some q => "fail ends-in " ++ toFEN q
          | none => "fail"
  | "replay" :: idxs :: moves =>
    match (idxs.splitOn ",").mapM (fun s => if s == "-" then some 1000000 else parseNat? s) with
    | none => "bad-op"
    | some want =>
      match replay startPos moves 0 want [] {} with
      | .error e => e
      | .ok (n, p, fens, st) =>
        s!"ok {n} | " ++ " | ".intercalate (fens ++ [toFEN p]) ++
          s!" | promo={st.promo} castle={st.castle} epcap={st.epcap} eprights={st.eprights} captures={st.captures} men={men true p.b + men false p.b} epcapat={showIdx st.epcapAt} castleat={showIdx st.castleAt}"
  | "fencounts" :: fen =>
    match readFEN (fenOf fen) with
    | .error e => "err " ++ e.toString
    | .ok p =>
      let c := countsOf p.b
      let l := (List.range 12).map fun i => s!"{c (UInt8.ofNat (i + 1))}"
      " ".intercalate l ++ (match validatePieceCounts c with | .ok => " ok" | .tooManyWhite => " white" | .tooManyBlack => " black")
  | "pair" :: f1 :: f2 :: f3 :: f4 :: f5 :: f6 :: g =>
    -- the proven predicates evaluated on a (position, later position) pair
    match readFEN (fenOf [f1, f2, f3, f4, f5, f6]), readFEN (fenOf g) with
    | .ok p, .ok q =>
      let nB : Int := (men false p.b : Int) - men false q.b
      let nW : Int := (men true p.b : Int) - men true q.b
      s!"enough={b2s (enoughRemainingPieces (countsOf p.b) (countsOf q.b))} capbound={distCombine 0 0 nB nW p.wtm q.wtm} nB={nB} nW={nW}"
    | _, _ => "err fen"
  | _ => "bad-op"

end Drv.PG
