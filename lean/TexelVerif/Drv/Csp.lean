import TexelVerif.Csp.Run
import TexelVerif.Drv.Util
/-!
Line protocol for the rank-constraint solver model (property C20).

`csp <call>*` — one line is the whole life of one `CspSolver`: the building calls in order, then `solve`.
  calls:  `V p lo hi` addVariable(pref p ∈ 0..3, lo, hi) · `E v` makeEven · `O v` makeOdd · `m v x` addMinVal ·
          `M v x` addMaxVal · `L v1 v2 c` addIneq(v1,LE,v2,c) · `G v1 v2 c` addIneq(v1,GE,v2,c) · `Q v1 v2 c` addEq
  reply:  `err <kind> <index of the offending call>` | `err toomany` | `unsat arc` |
          `unsat search <nodes> ;<domains after arc consistency>` | `sat <nodes> <values> ;<domains after arc consistency>`
`bs <op> <word> <args>` — one `BitSet<64,-16>` primitive on the set whose 64-bit word is `<word>`.
All integers are strict decimal `-?[0-9]+` inside the `int` range, otherwise `bad-op`.
-/
namespace Drv.Csp
open _root_.Csp Drv

def strictNat? (s : String) : Option Nat :=
  let cs := s.toList
  if cs.isEmpty ∨ cs.length > 10 then none
  else if cs.all (fun c => '0' ≤ c ∧ c ≤ '9') then some (cs.foldl (fun a c => a * 10 + (c.toNat - '0'.toNat)) 0)
  else none

/-- strict decimal inside the C++ `int` range -/
def int32? (s : String) : Option Int :=
  let r : Option Int := match s.toList with
    | '-' :: cs => (strictNat? (String.ofList cs)).map fun n => -(n : Int)
    | _ => (strictNat? s).map fun n => (n : Int)
  match r with
  | some v => if intMin ≤ v ∧ v ≤ intMax then some v else none
  | none => none

def var? (s : String) : Option Nat :=
  match strictNat? s with
  | some v => if (v : Int) ≤ intMax then some v else none
  | none => none

def pref? : String → Option Pref
  | "0" => some .small | "1" => some .large | "2" => some .midSmall | "3" => some .midLarge
  | _ => none

partial def parseCmds : List String → List Cmd → Option (List Cmd)
  | [], acc => some acc.reverse
  | "V" :: p :: lo :: hi :: r, acc => match pref? p, int32? lo, int32? hi with
    | some p, some lo, some hi => parseCmds r (.addVar p lo hi :: acc)
    | _, _, _ => none
  | "E" :: v :: r, acc => match var? v with
    | some v => parseCmds r (.even v :: acc)
    | none => none
  | "O" :: v :: r, acc => match var? v with
    | some v => parseCmds r (.odd v :: acc)
    | none => none
  | "m" :: v :: x :: r, acc => match var? v, int32? x with
    | some v, some x => parseCmds r (.minVal v x :: acc)
    | _, _ => none
  | "M" :: v :: x :: r, acc => match var? v, int32? x with
    | some v, some x => parseCmds r (.maxVal v x :: acc)
    | _, _ => none
  | "L" :: a :: b :: c :: r, acc => match var? a, var? b, int32? c with
    | some a, some b, some c => parseCmds r (.le a b c :: acc)
    | _, _, _ => none
  | "G" :: a :: b :: c :: r, acc => match var? a, var? b, int32? c with
    | some a, some b, some c => parseCmds r (.ge a b c :: acc)
    | _, _, _ => none
  | "Q" :: a :: b :: c :: r, acc => match var? a, var? b, int32? c with
    | some a, some b, some c => parseCmds r (.eq a b c :: acc)
    | _, _, _ => none
  | _, _ => none

def showErr : BuildErr → String
  | .range => "range" | .var => "var" | .window => "window" | .overflow => "overflow"

def showDoms (ds : Doms) : String := String.join (ds.map fun d => " " ++ hex d.toNat)
def showVals (vs : List Int) : String := String.join (vs.map fun v => s!" {v}")

def showOut : Out → String
  | .err e i => s!"err {showErr e} {i}"
  | .tooMany => "err toomany"
  | .stuck => "stuck"
  | .unsatArc => "unsat arc"
  | .unsatSearch n ds => s!"unsat search {n} ;{showDoms ds}"
  | .sat τ n ds => s!"sat {n}{showVals τ} ;{showDoms ds}"

def solveLine (args : List String) : String :=
  match parseCmds args [] with
  | some cmds => showOut (solveCmds cmds)
  | none => "bad-op"

def inWindow (v : Int) : Bool := decide (offs ≤ v) && decide (v < offs + 64)

def showOpt : Option Dom → String
  | some d => hex d.toNat
  | none => "err"

def bitset (args : List String) : String :=
  match args with
  | op :: w :: rest =>
    match parseNat? w with
    | none => "bad-op"
    | some wn =>
      if ¬ (w.startsWith "0x") ∨ 2^64 ≤ wn then "bad-op" else
      let d : Dom := BitVec.ofNat 64 wn
      match op, rest.mapM int32? with
      | "setrange", some [lo, hi] => if mMax < hi then "err" else showOpt (setRange lo hi)
      | "odd", some [] => hex (removeOdd d).toNat
      | "even", some [] => hex (removeEven d).toNat
      | "smaller", some [m] => showOpt (removeSmaller d m)
      | "larger", some [m] => if mMax < m then "err" else showOpt (removeLarger d m)
      | "min", some [] => s!"{minBit d}"
      | "max", some [] => s!"{maxBit d}"
      | "empty", some [] => b2s d.isEmpty
      | "count", some [] => s!"{bitCount d}"
      | "get", some [i] => if inWindow i then b2s (d.has i) else "err"
      | "set", some [i] => if inWindow i then hex (setBit d i).toNat else "err"
      | "clear", some [i] => if inWindow i then hex (clearBit d i).toNat else "err"
      | "pick", some [p] =>
        match p with
        | 0 => s!"{getBitVal d .small}" | 1 => s!"{getBitVal d .large}"
        | 2 => s!"{getBitVal d .midSmall}" | 3 => s!"{getBitVal d .midLarge}"
        | _ => "bad-op"
      | "order", some [p] =>      -- the whole value order of the `while (!d.empty())` loop of solveRecursive
        match p with
        | 0 => showVals (ordLoop .small 64 d) | 1 => showVals (ordLoop .large 64 d)
        | 2 => showVals (ordLoop .midSmall 64 d) | 3 => showVals (ordLoop .midLarge 64 d)
        | _ => "bad-op"
      | _, _ => "bad-op"
  | _ => "bad-op"

end Drv.Csp
