import TexelVerif.Draw.Claim
import TexelVerif.Drv.Chess
/-! Line protocol for C11: repetition scan, history builder, console game, rule-level oracle for move sequences. -/
namespace Drv.Draw
open _root_.Chess Drv Drv.Chess GameM

def inI32 (v : Int) : Bool := -2147483648 ≤ v && v ≤ 2147483647

/-- index of the rule-identity class of `p` in `table` (an injective "hash" on the positions of the table) -/
def keyIdx (table : List Pos) (p : Pos) : Nat := table.findIdx fun q => decide (drawKey q = drawKey p)

/-- play the moves from `p` under the specification (positions e.p.-normalised after every move);
    returns all positions `p₀ … pₙ` or the index of the first illegal / unparsable move -/
def playAll (p : Pos) (ms : List String) : Except Nat (List Pos × List Mv) :=
  let rec go (p : Pos) (ms : List String) (i : Nat) (accP : List Pos) (accM : List Mv) : Except Nat (List Pos × List Mv) :=
    match ms with
    | [] => .ok ((p :: accP).reverse, accM.reverse)
    | s :: rest =>
      match parseUci? p.wtm s with
      | none => .error i
      | some m => if legalB p m then go (nextPos p m) rest (i + 1) (p :: accP) (m :: accM) else .error i
  go p ms 0 [] []

def splitOn (sep : String) (xs : List String) : List (List String) :=
  let rec go (xs : List String) (cur : List String) (acc : List (List String)) : List (List String) :=
    match xs with
    | [] => (cur.reverse :: acc).reverse
    | x :: rest => if x == sep then go rest [] (cur.reverse :: acc) else go rest (x :: cur) acc
  go xs [] []

def uciShape (s : String) : Bool :=
  match s.toList with
  | [a, b, c, d] => ('a' ≤ a && a ≤ 'h') && ('1' ≤ b && b ≤ '8') && ('a' ≤ c && c ≤ 'h') && ('1' ≤ d && d ≤ '8')
  | [a, b, c, d, e] => ('a' ≤ a && a ≤ 'h') && ('1' ≤ b && b ≤ '8') && ('a' ≤ c && c ≤ 'h') && ('1' ≤ d && d ≤ '8') &&
      (e == 'q' || e == 'r' || e == 'b' || e == 'n')
  | _ => false

inductive Item where
  | cmd (c : Cmd)
  | cp (m : String)          -- query: ComputerPlayer::canClaimDraw for the move

/-- one command of a game script; moves are parsed against the side to move of the position at that time, hence
    the parser gets the current game -/
def parseItem (g : Game) (ts : List String) : Option Item :=
  let mv (s : String) : Option (Option Mv) := if uciShape s then some (parseUci? g.pos.wtm s) else none
  match ts with
  | ["new"] => some (.cmd .new)
  | ["undo"] => some (.cmd .undo)
  | ["redo"] => some (.cmd .redo)
  | ["noop"] => some (.cmd .noop)
  | ["junk"] => some (.cmd .junk)
  | ["resign"] => some (.cmd .resign)
  | ["accept"] => some (.cmd .drawAccept)
  | ["setpos", f1, f2, f3, f4, f5, f6] => some (.cmd (.setpos (fenOf [f1, f2, f3, f4, f5, f6])))
  | ["mv", s] => (mv s).map fun m => .cmd (.move m)
  | ["rep"] => some (.cmd (.drawRep none))
  | ["rep", s] => (mv s).map fun m => .cmd (.drawRep m)
  | ["fifty"] => some (.cmd (.draw50 none))
  | ["fifty", s] => (mv s).map fun m => .cmd (.draw50 m)
  | ["offer", s] => (mv s).map fun m => .cmd (.drawOffer m)
  | ["cp", s] => if uciShape s then some (.cp s) else none
  | _ => none

def showStep (g : Game) (ret : Bool) : String :=
  let st := getGameState g
  let dm := (st == .drawRep || st == .draw50) && g.drawMove
  s!"{b2s ret},{st.code},{b2s (haveDrawOffer g)},{g.cur},{g.moves.length},{b2s g.pending},{b2s dm}," ++
    (match g.pos.ep with | some e => sqName e | none => "-") ++ s!",{g.pos.hmc}"

def cpQuery (g : Game) (s : String) : String :=
  match parseUci? g.pos.wtm s with
  | none => "cp=na"
  | some m =>
    if !legalB g.pos m then "cp=na" else
    let hist := getHistory g
    let table := hist ++ [g.pos, apply g.pos m]
    "cp=" ++ (canClaimDraw (keyIdx table) hist g.pos m).code

def runScript (fixRedo : Bool) (items : List (List String)) : String :=
  let rec go (g : Game) (items : List (List String)) (acc : List String) : Option (Game × List String) :=
    match items with
    | [] => some (g, acc.reverse)
    | ts :: rest =>
      match parseItem g ts with
      | none => none
      | some (.cp s) => go g rest (cpQuery g s :: acc)
      | some (.cmd c) =>
        let (g', r) := processString fixRedo g c
        go g' rest (showStep g' r :: acc)
  match readFEN startFEN with
  | .error _ => "bad-op"
  | .ok p0 =>
    match go (newGame p0) items [] with
    | none => "bad-op"
    | some (g, outs) => " ; ".intercalate (outs ++ [toFEN g.pos])

def step (args : List String) : String :=
  match args with
  | "scan" :: size :: hmc :: firstNew :: h :: hs =>
    match parseInt? size, parseInt? hmc, parseInt? firstNew, parseNat? h, allNat? hs with
    | some size, some hmc, some firstNew, some h, some hs =>
      if !(inI32 size && inI32 hmc && inI32 firstNew) || h ≥ 2^64 || hs.any (· ≥ 2^64) then "bad-op"
      else if size > hs.length then "bad-op"      -- the C++ reads `posHashList[i]` for i < size only
      else b2s (Rep.canClaimDrawRep (fun i => hs.getD i 0) size hmc firstNew h)
    | _, _, _, _, _ => "bad-op"
  | "setup" :: f1 :: f2 :: f3 :: f4 :: f5 :: f6 :: moves =>
    match readFEN (fenOf [f1, f2, f3, f4, f5, f6]) with
    | .error e => "err " ++ e.toString
    | .ok p =>
      match playAll p moves with
      | .error i => s!"illegal {i}"
      | .ok (sts, ms) =>
        let (l, fin) := Hist.setupPosition nextPos (·.hmc) (fun q => q) p ms
        let idx := l.map fun q => toString (keyIdx sts q)
        s!"size={l.length} idx={",".intercalate idx} fen=" ++ toFEN fin
  | "line" :: f1 :: f2 :: f3 :: f4 :: f5 :: f6 :: moves =>
    -- rule-level oracle: how often did the final position occur before (same board, side, castling rights and
    -- e.p. capturability), is it mate / stalemate, its clock
    match readFEN (fenOf [f1, f2, f3, f4, f5, f6]) with
    | .error e => "err " ++ e.toString
    | .ok p =>
      match playAll p moves with
      | .error i => s!"illegal {i}"
      | .ok (sts, _) =>
        match sts.reverse with
        | [] => "bad-op"
        | fin :: earlier =>
          let occ := earlier.countP fun q => decide (drawKey q = drawKey fin)
          let legal := genLegal fin
          let chk := inCheck fin.b fin.wtm
          s!"ok occ={occ} hmc={fin.hmc} mated={b2s (legal.isEmpty && chk)} stale={b2s (legal.isEmpty && !chk)} " ++
            s!"dead={b2s (insufficientMaterial fin.b)} fen=" ++ toFEN fin
  | "game" :: script => runScript true (splitOn ";" script)
  | _ => "bad-op"

end Drv.Draw
