import TexelVerif.Chess.Mate
import TexelVerif.Drv.Chess
/-! Line protocol for mate certificates (C04, C13). -/
namespace Drv.Mate
open _root_.Chess Drv Drv.Chess

/-- wincert := move "#" | move "(" { reply wincert } ")" ; side to move alternates, `w` = attacker to move is white -/
partial def parseWin (w : Bool) (ts : List String) : Option (WinCert × List String) :=
  match ts with
  | m :: "#" :: rest => (parseUci? w m).map fun mv => (.mate mv, rest)
  | m :: "(" :: rest =>
    match parseUci? w m with
    | none => none
    | some mv =>
      let rec loop (ts : List String) (acc : List (Mv × WinCert)) : Option (List (Mv × WinCert) × List String) :=
        match ts with
        | ")" :: rest => some (acc.reverse, rest)
        | r :: rest =>
          match parseUci? (!w) r, parseWin w rest with
          | some rv, some (c, rest') => loop rest' ((rv, c) :: acc)
          | _, _ => none
        | [] => none
      (loop rest []).map fun (rs, rest') => (.node mv rs, rest')
  | _ => none

/-- nw := "." | "[" { move ("=" | reply nw) } "]" -/
partial def parseNoWin (w : Bool) (ts : List String) : Option (NoWinCert × List String) :=
  match ts with
  | "." :: rest => some (.leaf, rest)
  | "[" :: rest =>
    let rec loop (ts : List String) (acc : List (Mv × Option (Mv × NoWinCert))) : Option (List (Mv × Option (Mv × NoWinCert)) × List String) :=
      match ts with
      | "]" :: rest => some (acc.reverse, rest)
      | m :: "=" :: rest =>
        match parseUci? w m with
        | some mv => loop rest ((mv, none) :: acc)
        | none => none
      | m :: r :: rest =>
        match parseUci? w m, parseUci? (!w) r, parseNoWin w rest with
        | some mv, some rv, some (c, rest') => loop rest' ((mv, some (rv, c)) :: acc)
        | _, _, _ => none
      | _ => none
    (loop rest []).map fun (as, rest') => (.node as, rest')
  | _ => none

def step (args : List String) : String :=
  match args with
  | "mate1" :: fen => match readFEN (fenOf fen) with
    | .ok p => b2s (hasMateIn1 p)
    | .error e => "err " ++ e.toString
  | "mate1mv" :: fen => match readFEN (fenOf fen) with        -- all mating moves (specification only)
    | .ok p => " ".intercalate (((genLegal p).filter fun m => isMated (nextPos p m)).map mvToUci)
    | .error e => "err " ++ e.toString
  | "wincert" :: n :: f1 :: f2 :: f3 :: f4 :: f5 :: f6 :: toks =>
    match parseNat? n, readFEN (fenOf [f1, f2, f3, f4, f5, f6]) with
    | some n, .ok p =>
      match parseWin p.wtm toks with
      | some (c, []) => if checkWin p n c then "ok" else "fail"
      | _ => "bad-cert"
    | _, _ => "bad-op"
  | "nowincert" :: n :: f1 :: f2 :: f3 :: f4 :: f5 :: f6 :: toks =>
    match parseNat? n, readFEN (fenOf [f1, f2, f3, f4, f5, f6]) with
    | some n, .ok p =>
      match parseNoWin p.wtm toks with
      | some (c, []) => if checkNoWin p n c then "ok" else "fail"
      | _ => "bad-cert"
    | _, _ => "bad-op"
  | "losecert" :: n :: f1 :: f2 :: f3 :: f4 :: f5 :: f6 :: toks =>
    -- LoseIn p n: p has legal moves and after each of them the opponent has a win certificate within n
    match parseNat? n, readFEN (fenOf [f1, f2, f3, f4, f5, f6]) with
    | some n, .ok p =>
      let rec loop (ts : List String) (acc : List (Mv × WinCert)) (fuel : Nat) : Option (List (Mv × WinCert)) :=
        match fuel, ts with
        | _, [] => some acc
        | 0, _ => none
        | fuel + 1, m :: rest =>
          match parseUci? p.wtm m, parseWin (!p.wtm) rest with
          | some mv, some (c, rest') => loop rest' ((mv, c) :: acc) fuel
          | _, _ => none
      match loop toks [] toks.length with
      | none => "bad-cert"
      | some cs =>
        let legal := genLegal p
        if !legal.isEmpty && coversAll legal (cs.map (·.1)) && cs.all (fun x => !legalB p x.1 || checkWin (nextPos p x.1) n x.2)
        then "ok" else "fail"
    | _, _ => "bad-op"
  | _ => "bad-op"

end Drv.Mate
