import TexelVerif.TT.Table
import TexelVerif.Drv.Util
/-! Line protocol for the transposition table model (property C08). -/
namespace Drv.TT
open _root_.TT Drv

def showEntry (key d : W) (ply : Int) : String :=
  s!"hit {hex key.toNat} {hex d.toNat} {(getMove d).toNat} {getScore d ply} {getDepth d} {getType d} {getEvalScore d} {getGeneration d} {b2s (getBusy d)}"

def step (t : Table) (args : List String) : Table × String :=
  match args with
  | ["new", n] => match parseNat? n with
    | some n => let t := Table.new n; (t, s!"ok {t.size}")
    | none => (t, "bad-op")
  | ["idx", k] => match parseNat? k with
    | some k => (t, s!"{getIndex t.used (k % 2^64)}")
    | none => (t, "bad-op")
  | ["used", n] => match parseNat? n with
    | some n => let u := setUsedSize n; ({ t with used := u }, s!"{u.top} {u.shift} {hex u.mask}")
    | none => (t, "bad-op")
  | ["ins", key, f, to, pr, sc, ty, ply, dp, ev, busy] =>
    match parseNat? key, allNat? [f, to, pr, busy], allInt? [sc, ty, ply, dp, ev] with
    | some key, some [f, to, pr, busy], some [sc, ty, ply, dp, ev] =>
      (t.insert { key := BitVec.ofNat 64 key, from_ := f, to := to, promote := pr, score := sc, type := ty,
                  ply := ply, depth := dp, eval := ev, busy := busy != 0 }, "ok")
    | _, _, _ => (t, "bad-op")
  | ["probe", key, ply] =>
    match parseNat? key, parseInt? ply with
    | some key, some ply =>
      let (t', r) := t.probe (BitVec.ofNat 64 key)
      match r with
      | some (k, d) => (t', if getType d = T_EMPTY then "miss" else showEntry (k ^^^ t.contempt) d ply)   -- callers treat T_EMPTY as a miss
      | none => (t', "miss")
    | _, _ => (t, "bad-op")
  | ["busy", key, ply] =>
    match parseNat? key, parseInt? ply with
    | some key, some ply =>
      let (t', r) := t.probe (BitVec.ofNat 64 key)
      match r with
      | some (k, d) => if getType d = T_EMPTY then (t', "miss") else (t'.setBusy k d ply, "ok")
      | none => (t', "miss")
    | _, _ => (t, "bad-op")
  | ["gen"] => (t.nextGeneration, s!"ok {t.nextGeneration.gen}")
  | ["clear"] => (t.clear, "ok")
  | ["contempt", c] => match parseInt? c with
    | some c => (t.setWhiteContempt c, "ok")
    | none => (t, "bad-op")
  | ["dump", i] => match parseNat? i with
    | some i => if i < t.size then let s := t.slot i; (t, s!"{hex s.1.toNat} {hex s.2.toNat}") else (t, "bad-op")
    | none => (t, "bad-op")
  | ["putb", i, v] => match parseNat? i, parseNat? v with
    | some i, some v => if i < t.size * 16 ∧ v < 256 then (t.putByte i v, "ok") else (t, "bad-op")
    | _, _ => (t, "bad-op")
  | ["getb", i] => match parseNat? i with
    | some i => if i < t.size * 16 then (t, s!"{t.getByte i}") else (t, "bad-op")
    | none => (t, "bad-op")
  -- pure entry kernels
  | ["setbits", d, f, s, v] => match allNat? [d, f, s, v] with
    | some [d, f, s, v] => if f + s ≤ 64 ∧ s ≤ 32 then (t, hex (setBits (BitVec.ofNat 64 d) f s (BitVec.ofNat 32 v)).toNat) else (t, "bad-op")
    | _ => (t, "bad-op")
  | ["getbits", d, f, s] => match allNat? [d, f, s] with
    | some [d, f, s] => if f + s ≤ 64 ∧ s ≤ 32 then (t, s!"{(getBits (BitVec.ofNat 64 d) f s).toNat}") else (t, "bad-op")
    | _ => (t, "bad-op")
  | ["score", sc, p1, p2] => match allInt? [sc, p1, p2] with
    | some [sc, p1, p2] => (t, s!"{getScore (setScore 0 sc p1) p2}")
    | _ => (t, "bad-op")
  | ["cut", d, al, be, ply, dp] => match parseNat? d, allInt? [al, be, ply, dp] with
    | some d, some [al, be, ply, dp] => (t, b2s (isCutOff (BitVec.ofNat 64 d) al be ply dp))
    | _, _ => (t, "bad-op")
  | ["better", a, b, g] => match allNat? [a, b, g] with
    | some [a, b, g] => (t, b2s (betterThan (BitVec.ofNat 64 a) (BitVec.ofNat 64 b) g))
    | _ => (t, "bad-op")
  | _ => (t, "bad-op")

end Drv.TT
