import TexelVerif.TB.Check
import TexelVerif.TB.Abort
import TexelVerif.TB.RetroChess
import TexelVerif.Drv.Util
/-! Driver side of property C12.
    * line protocol (`tb …` lines on stdin, pure): static tables, per-index data, abort state machine;
    * command-line modes (need a dumped table file):
        `driver tbchk  <8 counts> <file> <ulo> <uhi>`  run the proven `checkUnit` on units ulo..uhi-1 (unit u = k1*65+k2)
        `driver tbaux  <8 counts> <file> <lo> <hi>`    run `checkAux` on the index range
        `driver tbserve <8 counts> <file>`             answer `tb probe …` lines from stdin with the model of probeDTM
    * command-line modes of the retrograde model (no table file needed):
        `driver tbretro <8 counts> <outfile>`          run `Retro.generate` on the class, write the table bytes
        `driver tbok    <8 counts> cached|direct`      evaluate `Retro.okCheck…` (obligations of `Retro.OK (igOf c)`)
        `driver tbhom   <8 counts> <ulo> <uhi>`        evaluate `Retro.homUnit` on units ulo..uhi-1 -/
namespace Drv.TB
open _root_.TB Drv

def clsOfCounts (l : List Nat) : Option Cls :=
  match l with
  | [wq, wr, wb, wn, bq, br, bb, bn] =>
    if l.all (· ≤ 3) ∧ wq + wr + wb + wn + bq + br + bb + bn ≤ 2 then
      some { white := List.replicate wn .N ++ List.replicate wb .B ++ List.replicate wr .R ++ List.replicate wq .Q,
             black := List.replicate bn .N ++ List.replicate bb .B ++ List.replicate br .R ++ List.replicate bq .Q }
    else none
  | _ => none

def insertNat (a : Nat) : List Nat → List Nat
  | [] => [a]
  | b :: l => if a ≤ b then a :: b :: l else b :: insertNat a l
def sortNat (l : List Nat) : List Nat := l.foldr insertNat []

def joinNats (l : List Nat) : String := " ".intercalate (l.map toString)

/-- the per-index data `TBGenerator::generate` works with: validity, "can take king", successor indices -/
def idxData (c : CC) (sh : Shape) (i : Nat) : String :=
  if !sh.indexValid i.toUInt64 then "inv"
  else
    let p := posOfIndex sh i.toUInt64
    if canTakeKing c p then "ctk"
    else
      let succ := (pseudoMoves c p).map fun q => match indexOf sh q with | some j => j | none => 4294967295
      "m" ++ (sortNat succ).foldl (fun s j => s ++ " " ++ toString j) ""

/-- the index-level move generators of the retrograde model -/
def retroIdx (c : CC) (sh : Shape) (i : Nat) (un : Bool) : String :=
  if !sh.indexValid i.toUInt64 then "inv"
  else if canTakeKing c (posOfIndex sh i.toUInt64) then "ctk"
  else if un then "u" ++ (Retro.getUnMovesIdx sh i.toUInt64).foldl (fun s j => s ++ " " ++ toString j) ""
  else "m" ++ (Retro.getMovesIdx sh i.toUInt64).foldl (fun s j => s ++ " " ++ toString j) ""

/-- digest of the transcribed `getMoves` / `getUnMoves` over an index range (same arithmetic as `tb sum` in h_tb.cpp) -/
def retroSum (c : CC) (sh : Shape) (un : Bool) (lo hi : Nat) : String := Id.run do
  let mut h : UInt64 := 1469598103934665603
  let mut legalCnt := 0
  let mut total := 0
  for i in [lo:hi] do
    if !sh.indexValid i.toUInt64 then h := (h ^^^ 0) * 1099511628211
    else if canTakeKing c (posOfIndex sh i.toUInt64) then h := (h ^^^ 1) * 1099511628211
    else
      let lst := if un then Retro.getUnMovesIdx sh i.toUInt64 else Retro.getMovesIdx sh i.toUInt64
      h := (h ^^^ 2) * 1099511628211
      h := (h ^^^ lst.length.toUInt64) * 1099511628211
      for j in lst do h := (h ^^^ j.toUInt64) * 1099511628211
      legalCnt := legalCnt + 1
      total := total + lst.length
  return s!"sum {h.toNat} legal {legalCnt} entries {total}"

def parseMan (s : String) : Option (Nat × Nat) :=
  match s.splitOn "@" with
  | [a, b] => match parseNat? a, parseNat? b with
    | some code, some sq => if 1 ≤ code ∧ code ≤ 12 ∧ sq ≤ 63 then some (code, sq) else none
    | _, _ => none
  | _ => none

def probeLine (sh : Shape) (T : ByteArray) (args : List String) : String :=
  match args with
  | ply :: side :: castle :: men =>
    match parseInt? ply, parseNat? castle, men.mapM parseMan with
    | some ply, some castle, some men =>
      if (side != "w" && side != "b") || castle > 15 || ply < 0 || ply > 1000 then "bad-op"
      else if !distinct (men.map (·.2)) then "bad-op"
      else if (men.filter (·.1 == 1)).length != 1 || (men.filter (·.1 == 7)).length != 1 then "bad-op"
      else
        let b : Board := { men := sortMen (men.map fun m => mkMan m.1 m.2), wtm := side == "w", castle := castle }
        let i := match sh.setPosition b with | some i => toString i | none => "none"
        match probeDTM sh T b ply with
        | some s => s!"{i} hit {s}"
        | none => s!"{i} miss"
    | _, _, _ => "bad-op"
  | _ => "bad-op"

def insertStr (a : String) : List String → List String
  | [] => [a]
  | b :: l => if a ≤ b then a :: b :: l else b :: insertStr a l
def sortStr (l : List String) : List String := l.foldr insertStr []

def kindOfCode (code : Nat) : Option Kind :=
  match (if code > 6 then code - 6 else code) with
  | 1 => some .K | 2 => some .Q | 3 => some .R | 4 => some .B | 5 => some .N | _ => none

/-- legal successors of an arbitrary pawnless position with at most 4 men, by the game model -/
def legalLine (args : List String) : String :=
  match args with
  | side :: menS =>
    match menS.mapM parseMan with
    | some men =>
      if (side != "w" && side != "b") || men.length > 4 || men.any (fun m => m.1 == 6 || m.1 == 12) then "bad-op"
      else if !distinct (men.map (·.2)) then "bad-op"
      else if (men.filter (·.1 == 1)).length != 1 || (men.filter (·.1 == 7)).length != 1 then "bad-op"
      else
        -- class: the men present, in slot order (N, B, R, Q per side)
        let pick (code : Nat) := men.filter (·.1 == code)
        let whiteMen := pick 5 ++ pick 4 ++ pick 3 ++ pick 2
        let blackMen := pick 11 ++ pick 10 ++ pick 9 ++ pick 8
        let cls : Cls := { white := whiteMen.filterMap (fun m => kindOfCode m.1), black := blackMen.filterMap (fun m => kindOfCode m.1) }
        let c := cls.cc
        let sh := c.shape
        let p : Pos := { wtm := side == "w", sq := (pick 1 ++ whiteMen ++ pick 7 ++ blackMen).map (·.2) }
        if !legal c p then "illegal"
        else
          let show1 (q : Pos) : String :=
            (if q.wtm then "w" else "b") ++
              (sortMen (presentMen sh.types q.sq)).foldl (fun s m => s ++ s!",{manCode m}@{manSq m}") ""
          let succ := sortStr ((moves c p).map show1)
          s!"chk={b2s (inCheck c p)} n={succ.length}" ++ succ.foldl (fun s x => s ++ " " ++ x) ""
    | none => "bad-op"
  | _ => "bad-op"

/-- pure line protocol -/
def step (args : List String) : String :=
  match args with
  | ["tables"] =>
    "sym " ++ joinNats symTypeTab.toList ++ " kmap " ++ joinNats kingMapTab.toList ++
    " kinv " ++ joinNats kingMapInvTab.toList
  | "idx" :: rest =>
    match allNat? rest with
    | some l => match clsOfCounts (l.take 8), l.drop 8 with
      | some c, [i] => if i < c.cc.shape.nPos then idxData c.cc c.cc.shape i else "bad-op"
      | _, _ => "bad-op"
    | none => "bad-op"
  | "sum" :: which :: rest =>
    match allNat? rest with
    | some l => match clsOfCounts (l.take 8), l.drop 8 with
      | some c, [lo, hi] =>
        if (which != "m" && which != "u") || lo > hi || hi > c.cc.shape.nPos then "bad-op"
        else retroSum c.cc c.cc.shape (which == "u") lo hi
      | _, _ => "bad-op"
    | none => "bad-op"
  | "midx" :: rest =>        -- `TBPosition::getMoves` by the transcription `Retro.getMovesIdx`
    match allNat? rest with
    | some l => match clsOfCounts (l.take 8), l.drop 8 with
      | some c, [i] => if i < c.cc.shape.nPos then retroIdx c.cc c.cc.shape i false else "bad-op"
      | _, _ => "bad-op"
    | none => "bad-op"
  | "unidx" :: rest =>       -- `TBPosition::getUnMoves` by the transcription `Retro.getUnMovesIdx`
    match allNat? rest with
    | some l => match clsOfCounts (l.take 8), l.drop 8 with
      | some c, [i] => if i < c.cc.shape.nPos then retroIdx c.cc c.cc.shape i true else "bad-op"
      | _, _ => "bad-op"
    | none => "bad-op"
  | "posidx" :: rest =>      -- the position an index denotes, as probe arguments: `<w|b> <code@sq>…`
    match allNat? rest with
    | some l => match clsOfCounts (l.take 8), l.drop 8 with
      | some c, [i] =>
        let sh := c.cc.shape
        if i < sh.nPos then
          let p := posOfIndex sh i.toUInt64
          (if p.wtm then "w" else "b") ++ (presentMen sh.types p.sq).foldl (fun s m => s ++ s!" {manCode m}@{manSq m}") ""
        else "bad-op"
      | _, _ => "bad-op"
    | none => "bad-op"
  | "legal" :: rest => legalLine rest
  | "abortmodel" :: fixed :: evs => Abort.runLine (fixed == "fixed") evs
  | _ => "bad-op"

/-! ### diagnostics (unproven; only used to print a failing position after the proven checker said `false`) -/

def enumLists : Nat → List (List Nat)
  | 0 => [[]]
  | n+1 => (List.range 65).flatMap fun x => (enumLists n).map (x :: ·)

def findBad (c : CC) (sh : Shape) (T : ByteArray) (k1 k2 : Nat) : String :=
  let cands := (enumLists (c.n - 2)).flatMap fun l => [(⟨true, k1 :: k2 :: l⟩ : Pos), ⟨false, k1 :: k2 :: l⟩]
  match cands.find? fun p => legal c p && !checkPos c sh T p with
  | none => "no failing position found"
  | some p =>
    let i := indexOf sh p
    let byte := match i with | some i => toString (readByte T i).toNat | none => "-"
    let exp := Cert.expectedV ((moves c p).map (tableVal c sh T)) (inCheck c p)
    let succ := (moves c p).map fun q => s!"{joinNats q.sq}:{repr (tableVal c sh T q)}"
    s!"pos wtm={p.wtm} sq=[{joinNats p.sq}] index={i} byte={byte} localrule={repr exp} successors={succ}"

partial def serveLoop (sh : Shape) (T : ByteArray) (counts : List Nat) (inp out : IO.FS.Stream) : IO Unit := do
  let line ← inp.getLine
  if line.isEmpty then return ()
  let toks := (line.trimAscii.toString.splitOn " ").filter (· ≠ "")
  let reply := match toks with
    | "tb" :: "load" :: _ :: cs => if cs.mapM parseNat? == some counts then s!"ok {sh.nPos}" else "bad-op"
    | "tb" :: "probe" :: a => probeLine sh T a
    | _ => "bad-op"
  out.putStrLn reply
  serveLoop sh T counts inp out

def mainArgs (args : List String) : IO UInt32 := do
  let out ← IO.getStdout
  match args with
  | mode :: rest =>
    match (rest.take 8).mapM parseNat? with
    | none => out.putStrLn "bad-args"; return 2
    | some counts =>
    match mode, clsOfCounts counts, rest.drop 8 with
    | "tbretro", some cls, [file] =>
      let r := Retro.generate (Retro.igOf cls.cc)
      IO.FS.writeBinFile file (Retro.bytes r.tab)
      let lo := r.tab.foldl (fun m s => if s < m then s else m) 0
      let hi := r.tab.foldl (fun m s => if s > m then s else m) 0
      out.putStrLn s!"ok size={r.tab.size} passes={r.passes} finished={r.finished} min={lo} max={hi}"
      return 0
    | "tbok", some cls, [how] =>
      let G := Retro.igOf cls.cc
      let ok := if how == "cached" then Retro.okCheckCached G else Retro.okCheckDirect G
      if ok then out.putStrLn "ok"; return 0
      else
        -- diagnostics (unproven): the first index at which the obligations fail
        let bad := (List.range G.nPos).find? fun i => !Retro.okAt G G.moves G.unmoves i
        let info := match bad with
          | none => s!"nPos%64={G.nPos % 64}"
          | some i =>
            let missing := (G.moves i).filter fun j => Retro.legalB G j && !(G.unmoves j).contains i
            let spurious := (G.unmoves i).filter fun j => Retro.legalB G j && !(G.moves j).contains i
            s!"index {i} successors-that-do-not-list-it-as-predecessor {missing} predecessors-that-do-not-move-to-it {spurious}"
        out.putStrLn s!"fail {info}"
        return 1
    | "tbhom", some cls, [ulo, uhi] =>
      match parseNat? ulo, parseNat? uhi with
      | some ulo, some uhi =>
        let c := cls.cc
        let G := Retro.igOf c
        let mut u := ulo
        let mut bad := false
        while u < uhi && !bad do
          if !Retro.homUnit c c.shape G (u / 65) (u % 65) then
            out.putStrLn s!"fail unit {u / 65} {u % 65}"
            bad := true
          u := u + 1
        if !bad then out.putStrLn s!"ok hom {ulo} {uhi}"
        return (if bad then 1 else 0)
      | _, _ => out.putStrLn "bad-args"; return 2
    | _, _, _ =>
    match clsOfCounts counts, rest.drop 8 with
    | some cls, file :: more =>
      let c := cls.cc
      let sh := c.shape
      let T ← IO.FS.readBinFile file
      if T.size != sh.nPos then
        out.putStrLn s!"fail table size {T.size} expected {sh.nPos}"; return 1
      match mode, more.mapM parseNat? with
      | "tbchk", some [ulo, uhi] =>
        let mut u := ulo
        let mut bad := false
        while u < uhi && !bad do
          if !checkUnit c sh T (u / 65) (u % 65) then
            out.putStrLn s!"fail unit {u / 65} {u % 65} {findBad c sh T (u / 65) (u % 65)}"
            bad := true
          u := u + 1
        if !bad then out.putStrLn s!"ok units {ulo} {uhi}"
        return (if bad then 1 else 0)
      | "tbaux", some [lo, hi] =>
        if checkAux c sh T lo hi then out.putStrLn s!"ok aux {lo} {hi}"; return 0
        else
          let j := (List.range' lo (hi - lo)).find? fun i => !auxAt c sh T i
          out.putStrLn s!"fail aux index {j} byte {j.map fun i => (readByte T i).toNat} valid {j.map fun i => sh.indexValid i.toUInt64}"
          return 1
      | "tbserve", some [] =>
        serveLoop sh T counts (← IO.getStdin) out
        out.flush
        return 0
      | _, _ => out.putStrLn "bad-args"; return 2
    | _, _ => out.putStrLn "bad-args"; return 2
  | [] => out.putStrLn "bad-args"; return 2

end Drv.TB
