import TexelVerif.Book.Probe
import TexelVerif.Book.Random
import TexelVerif.Drv.Chess
import TexelVerif.Drv.Util
/-! Line protocol for the opening-book probe model (property C18), protocol word `pgbook`. -/
namespace Drv.Book
open _root_.Book _root_.Chess Drv

/-- the session's current book file; `none` = no polyglot file configured (built-in book: not modelled here) -/
structure St where
  file : Option (List UInt8) := some []

def hexVal? (c : Char) : Option Nat :=
  if '0' ≤ c ∧ c ≤ '9' then some (c.toNat - 48) else if 'a' ≤ c ∧ c ≤ 'f' then some (c.toNat - 87) else none

def parseHexBytes? : List Char → Option (List UInt8)
  | [] => some []
  | [_] => none
  | a :: b :: rest => do
    let x ← hexVal? a; let y ← hexVal? b; let r ← parseHexBytes? rest
    pure (UInt8.ofNat (x * 16 + y) :: r)

def hex2 (b : UInt8) : String := String.singleton (hexDigit (b.toNat / 16)) ++ String.singleton (hexDigit (b.toNat % 16))

def showMv (m : Mv) : String := s!"{m.f.val}.{m.t.val}.{m.promo.toNat}"

def fenOf (toks : List String) : String := " ".intercalate toks

def withPos (toks : List String) (k : Pos → String) : String :=
  match readFEN (fenOf toks) with
  | .ok p => k p
  | .error e => "err " ++ e.toString

def step (st : St) (args : List String) : St × String :=
  match args with
  | ["file", h] =>
    if h == "-" then ({ st with file := some [] }, "ok 0") else
    match parseHexBytes? h.toList with
    | some bs => ({ st with file := some bs }, s!"ok {bs.length}")
    | none => (st, "bad-op")
  | ["run", n, key, mv, w] =>
    match allNat? [n, key, mv, w] with
    | some [n, key, mv, w] =>
      if n > 2^24 ∨ mv > 0xffff ∨ w > 0xffff ∨ key ≥ 2^64 then (st, "bad-op") else
      let rec_ := serialize key mv w
      let bs := (List.replicate n rec_).flatten
      ({ st with file := some bs }, s!"ok {bs.length}")
    | _ => (st, "bad-op")
  | ["nofile"] => ({ st with file := some [] }, "ok")      -- missing file: tellg() = -1, numEntries = 0
  | ["rand", i] =>
    match parseNat? i with
    | some i => if h : i < 781 then (st, hex (rnd i h).toNat) else (st, "bad-op")
    | none => (st, "bad-op")
  | ["ser", k, m, w] =>
    match allNat? [k, m, w] with
    | some [k, m, w] => if k ≥ 2^64 ∨ m > 0xffff ∨ w > 0xffff then (st, "bad-op") else (st, "".intercalate ((serialize k m w).map hex2))
    | _ => (st, "bad-op")
  | ["deser", h] =>
    match parseHexBytes? h.toList with
    | some bs => if bs.length = 16 then let e := deSerialize bs; (st, s!"{hex e.key} {e.move} {e.weight}") else (st, "bad-op")
    | none => (st, "bad-op")
  | ["u64", seed] =>
    match parseNat? seed with
    | some s => if s ≥ 2^64 then (st, "bad-op") else (st, hex ((Rng.seed (UInt64.ofNat s)).next.1).toNat)
    | none => (st, "bad-op")
  | "key" :: rest => (st, withPos rest fun p => hex (getHashKey p).toNat)
  | "dec" :: m :: rest =>
    match parseNat? m with
    | some m => if m > 0xffff then (st, "bad-op") else (st, withPos rest fun p => let mv := getMove p m; s!"{mv.f.val} {mv.t.val} {mv.promo.toNat}")
    | none => (st, "bad-op")
  | "enc" :: uci :: rest =>
    (st, withPos rest fun p =>
      match Drv.Chess.parseUci? p.wtm uci with
      | some mv => s!"{getPGMove p mv}"
      | none => "bad-op")
  | "entries" :: rest =>
    match st.file with
    | none => (st, "bad-op")
    | some f => (st, withPos rest fun p =>
        let es := getBookEntries f p
        " ".intercalate (s!"{es.length}" :: es.map fun e => s!"{showMv e.1}:{e.2}"))
  | "probe" :: seed :: rest =>
    match st.file, parseNat? seed with
    | some f, some s =>
      if s ≥ 2^64 then (st, "bad-op") else
      (st, withPos rest fun p =>
        let r := ((Rng.seed (UInt64.ofNat s)).next.1).toNat
        match getBookMove f p r with
        | none => "none"
        | some m => s!"{showMv m} legal={b2s (legalB p m)}")
    | _, _ => (st, "bad-op")
  | _ => (st, "bad-op")

end Drv.Book
