import TexelVerif.Chess.SAN
import TexelVerif.Chess.TextIdx
import TexelVerif.Chess.Pgn
import TexelVerif.Chess.PgnTree
import TexelVerif.Drv.Chess
/-! Line protocol for the text formats (property C17): move text both ways, FEN / SAN / UCI / PGN byte strings. -/
namespace Drv.Text
open _root_.Chess Drv

def hexVal (c : Char) : Option Nat :=
  if '0' ≤ c ∧ c ≤ '9' then some (c.toNat - 48) else if 'a' ≤ c ∧ c ≤ 'f' then some (c.toNat - 87) else none

/-- hex string → one `Char` per byte ("-" is the empty string) -/
def unhex (h : String) : Option (List Char) :=
  if h == "-" then some [] else
  let rec go : List Char → Option (List Char)
    | [] => some []
    | [_] => none
    | a :: b :: r => do
      let x ← hexVal a; let y ← hexVal b; let rest ← go r
      pure (Char.ofNat (x * 16 + y) :: rest)
  go h.toList

def hexOf (s : List Char) : String :=
  if s.isEmpty then "-" else String.ofList (s.flatMap fun c => [hexDigit (c.toNat / 16 % 16), hexDigit (c.toNat % 16)])

def mvNum : Option Mv → String
  | none => "none"
  | some m => s!"{m.f.val} {m.t.val} {m.promo.toNat}"

def movesLine (p : Pos) : String :=
  let legal := genLegal p
  let entries := legal.map fun m =>
    let uci := moveToUCI m
    let sh := moveToStringL legal p m false
    let lo := moveToStringL legal p m true
    let okS := stringToMoveL legal p sh == some m
    let okL := stringToMoveL legal p lo == some m
    let okU := uciStringToMove uci == some m
    let okA :=
      if sh.take 3 == ['O', '-', 'O'] then
        let lng := sh.take 5 == ['O', '-', 'O', '-', 'O']
        stringToMoveL legal p (if lng then "0-0-0".toList else "0-0".toList) == some m &&
        stringToMoveL legal p (if lng then "o-o-o".toList else "o-o".toList) == some m
      else true
    String.ofList uci ++ "," ++ String.ofList sh ++ "," ++ String.ofList lo ++ "," ++ b2s okS ++ b2s okL ++ b2s okU ++ b2s okA
  let sorted := (entries.toArray.qsort (· < ·)).toList
  s!"ok {legal.length}" ++ (if sorted.isEmpty then "" else " ") ++ " ".intercalate sorted

/-! ### FEN bytes -/

def fenxLine (s : List Char) : String :=
  let viaList := readFENRaw (String.ofList s)
  match Idx.readFENIdx s.toArray, viaList with
  | .error .oob, _ => "model-oob"
  | .error (.fen e), .error e' => if e == e' then "err " ++ e.toString else "model-split"
  | .ok r, .ok r' =>
    let a := toFENWith r.b r.wtm r.castle r.ep r.hmc r.fmc
    if a == toFENWith r'.b r'.wtm r'.castle r'.ep r'.hmc r'.fmc then "ok " ++ a else "model-split"
  | _, _ => "model-split"

/-! ### PGN bytes -/
open Pgn in
def dumpNode (arena : Array NodeR) : Nat → Nat → Bool → String
  | 0, _, _ => "(fuel)"
  | f + 1, id, root =>
    match arena[id]? with
    | none => "(?)"
    | some n =>
      "(" ++ (if root then "root" else match n.move with | some m => String.ofList (moveToUCI m) | none => "a1a1") ++
      ":" ++ toString n.nag ++ ":" ++ hexOf n.pre ++ ":" ++ hexOf n.post ++
      String.join (n.children.map fun c => dumpNode arena f c false) ++ ")"

open Pgn in
def dumpGame (g : Game) : String :=
  let get (name : String) : List Char :=
    g.tags.foldl (fun acc (n, v) => if strEq n name then v else acc) ['?']
  let std := ["Event", "Site", "Date", "Round", "White", "Black", "Result"]
  let other := g.tags.filter fun (n, _) => !(std.any (strEq n ·)) && !(strEq n "FEN") && !(strEq n "Setup")
  let fen := (toFEN g.start).map fun c => if c == ' ' then '_' else c
  "G h=" ++ ",".intercalate (std.map fun n => hexOf (get n)) ++
  " tags=" ++ (if other.isEmpty then "-" else ",".intercalate (other.map fun (n, v) => hexOf n ++ "=" ++ hexOf v)) ++
  " fen=" ++ fen ++ " t=" ++ dumpNode g.arena (g.arena.size + 1) 0 true ++
  " w=" ++ hexOf (writeFrom (g.arena.size + 1) g.arena 0 g.start)

/-- token-level cross-check (`Chess/PgnTree.lean`): when the move section of the first game consists of plain SYMBOL /
    `(` / `)` tokens only (plus the comments, NAGs, move numbers and periods that `parsePgn` skips), the tree of the arena
    parser must be the tree `parseLine` builds from the same token stream -/
partial def scanAll (cs : List Char) (acc : Array Pgn.Tok) : Array Pgn.Tok :=
  let (t, rest) := Pgn.nextTok cs
  if t.ty == .eof then acc else scanAll rest (acc.push t)

open Pgn PgnTree in
def arenaTree (arena : Array NodeR) : Nat → Nat → List (Tree (List Char))
  | 0, _ => []
  | f + 1, id =>
    match arena[id]? with
    | none => []
    | some n => n.children.map fun c => Tree.node ((arena[c]?).map (·.txt) |>.getD []) (arenaTree arena f c)

open PgnTree in
partial def treeEq : List (Tree (List Char)) → List (Tree (List Char)) → Bool
  | [], [] => true
  | Tree.node a ka :: ra, Tree.node b kb :: rb => a == b && treeEq ka kb && treeEq ra rb
  | _, _ => false

open Pgn PgnTree in
def crossCheck (s : List Char) (games : List Game) : Bool :=
  let toks := (scanAll (tokenChars s) #[]).toList
  -- only inputs without a tag section and without result / annotated symbols are in the sublanguage
  let plain := toks.all fun t =>
    (t.ty == .symbol && !isResultText t.s && !(t.s.getLast?.map fun c => isAnn c || c == '+').getD false) ||
    t.ty == .lparen || t.ty == .rparen || t.ty == .comment || t.ty == .nag || t.ty == .integer || t.ty == .period
  if !plain then true else
  let tk : List (Tk (List Char)) := toks.filterMap fun t =>
    if t.ty == .symbol then some (Tk.sym t.s) else if t.ty == .lparen then some Tk.lp else if t.ty == .rparen then some Tk.rp else none
  -- a variation that starts before any move of its line (`( (` or a leading `(`) is outside the sublanguage
  let isLp (t : Tk (List Char)) : Bool := match t with | Tk.lp => true | _ => false
  let rec lpLp : List (Tk (List Char)) → Bool
    | a :: b :: r => (isLp a && isLp b) || lpLp (b :: r)
    | _ => false
  if (tk.head?.map isLp).getD false || lpLp tk then true else
  let (kids, rest) := parseLine (tk.length + 1) tk
  match games with
  | [g] => if rest.isEmpty then treeEq kids (arenaTree g.arena (g.arena.size + 1) 0) else true
  | _ => true

open Pgn in
def pgnxLine (s : List Char) : String :=
  let cs := tokenChars s
  let (games, err) := readAll 10000 { cs := cs } []
  let parts := games.map dumpGame ++
    (match err with
     | none => []
     | some .invalidMove => ["err invalid-move"]
     | some (.fen e) => ["err fen:" ++ e.toString]
     | some .oob => ["model-oob"]
     | some .fuel => ["model-fuel"])
  if err.isNone && !crossCheck s games then "model-split(parseLine)"
  else if parts.isEmpty then "nogame" else " | ".intercalate parts

/-! ### UCI command line: tokenizer + the `position` command + the `verifdump` hook -/

structure UciSt where
  fen : String := startFEN        -- canonical FEN of `pos`
  moves : List Mv := []

def sEq (a : Array Char) (b : String) : Bool := a.toList == b.toList

/-- returns the new state and the line the engine prints ("-" = prints nothing) -/
def uciLine (st : UciSt) (line : List Char) : UciSt × String :=
  match Idx.tokenize line.toArray with
  | .error _ => (st, "model-oob")
  | .ok toks =>
    let n := toks.size
    match toks[0]? with
    | none => (st, "-")
    | some cmd =>
      if sEq cmd "position" then
        if n < 2 then (st, "-") else
        let t1 := toks[1]!
        let (fen?, idx) : Option (List Char) × Nat :=
          if sEq t1 "startpos" then (some startFEN.toList, 2)
          else if sEq t1 "fen" then
            let ws := (toks.toList.drop 2).takeWhile fun t => !sEq t "moves"
            let sb := ws.flatMap fun t => t.toList ++ [' ']
            match Idx.trim sb.toArray with
            | .ok f => (some f.toList, 2 + ws.length)
            | .error _ => (none, 0)
          else (some [], 1)
        match fen? with
        | none => (st, "model-oob")
        | some fen =>
          if fen.isEmpty then (st, "-") else
          match Idx.readFENIdx fen.toArray with
          | .error _ => (st, "-")                 -- ChessParseError: caught, state unchanged
          | .ok r =>
            let st := { fen := toFENWith r.b r.wtm r.castle r.ep r.hmc r.fmc, moves := [] }
            if idx < n && sEq toks[idx]! "moves" then
              let rec take : List (Array Char) → List Mv → List Mv
                | [], acc => acc
                | t :: ts, acc =>
                  match Idx.uciStringToMoveIdx t with
                  | .ok (some m) => take ts (acc ++ [m])
                  | _ => acc
              ({ st with moves := take (toks.toList.drop (idx + 1)) [] }, "-")
            else (st, "-")
      else if sEq cmd "verifdump" then
        let fen := st.fen.map fun c => if c == ' ' then '_' else c
        (st, s!"verif ntok={n} toks=" ++ ",".intercalate (toks.toList.map fun t => hexOf t.toList) ++ " fen=" ++ fen ++
             " moves=" ++ (if st.moves.isEmpty then "-" else ",".intercalate (st.moves.map fun m => String.ofList (moveToUCI m))))
      else (st, "-")

def step (st : UciSt) (args : List String) : UciSt × String :=
  match args with
  | "moves" :: rest =>
    if rest.isEmpty then (st, "bad-op") else
    match readFEN (Drv.Chess.fenOf rest) with
    | .ok p => (st, movesLine p)
    | .error e => (st, "err " ++ e.toString)
  | "sanx" :: h :: rest =>
    if rest.isEmpty then (st, "bad-op") else
    match unhex h with
    | none => (st, "bad-op")
    | some s =>
      match readFEN (Drv.Chess.fenOf rest) with
      | .ok p =>
        match Idx.stringToMoveIdx (genLegal p) p s.toArray with
        | .ok r => (st, "mv " ++ mvNum r)
        | .error _ => (st, "model-oob")
      | .error e => (st, "err " ++ e.toString)
  | ["ucix", h] =>
    match unhex h with
    | none => (st, "bad-op")
    | some s =>
      match Idx.uciStringToMoveIdx s.toArray with
      | .ok r => (st, if r == uciStringToMove s then "mv " ++ mvNum r else "model-split")
      | .error _ => (st, "model-oob")
  | ["fenx", h] =>
    match unhex h with
    | none => (st, "bad-op")
    | some s => (st, fenxLine s)
  | ["pgnx", h] =>
    match unhex h with
    | none => (st, "bad-op")
    | some s => (st, pgnxLine s)
  | ["uciline", h] =>
    match unhex h with
    | none => (st, "bad-op")
    | some s => uciLine st s
  | ["ucireset"] => ({}, "ok")
  | _ => (st, "bad-op")

end Drv.Text
