import TexelVerif.Uci.Impl
import TexelVerif.Drv.Util
/-! Line protocol for the UCI session contract (C05): `uci sess <tokens>` and `uci impl <guarded> <tokens>`. -/
namespace Drv.Uci
open _root_.Uci

def parseEv? (t : String) : Option Ev :=
  match t with
  | ">uci" => some (.inp .uci) | ">isready" => some (.inp .isready)
  | ">go" => some (.inp (.go false false)) | ">goP" => some (.inp (.go true false))
  | ">goI" => some (.inp (.go false true)) | ">goPI" => some (.inp (.go true true))
  | ">stop" => some (.inp .stop) | ">ponderhit" => some (.inp .ponderhit) | ">quit" => some (.inp .quit)
  | ">other" => some (.inp .other)
  | "<uciok" => some (.out .uciok) | "<readyok" => some (.out .readyok) | "<bestmove" => some (.out .bestmove)
  | "<info" => some (.out .info) | "<id" => some (.out .idOrOption) | "<str" => some (.out .infoString)
  | "<bad" => some (.out .malformed)
  | _ => none

def step (args : List String) : String :=
  match args with
  | "sess" :: toks =>
    match toks.mapM parseEv? with
    | none => "bad-op"
    | some tr =>
      match firstBad {} tr 0 with
      | some i => s!"reject {i}"
      | none =>
        match run {} tr with
        | some s => if accepts tr then "ok" else s!"incomplete uci={s.uciOwed} ready={s.readyOwed} go={s.goOwed}"
        | none => "reject ?"
  | "impl" :: g :: toks =>
    match toks.mapM parseEv? with
    | none => "bad-op"
    | some tr =>
      let cs := tr.filterMap fun e => match e with | .inp c => some c | _ => none
      match runCmds (g == "1") false cs with
      | .ok _ => "ok"
      | .crash => "crash"
  | _ => "bad-op"

end Drv.Uci
