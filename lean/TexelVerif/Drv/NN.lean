import TexelVerif.NN.Model
import TexelVerif.Drv.Util
/-! Line protocol for the model of `NNEvaluator`'s incremental first layer (property C07), counterpart of the
    `nn` handler in harness/h_nn.cpp.  The accumulator type is four wrapping 16-bit lanes (lanes 0, 1, 127, 255 of
    the code's 256); the weights are the "formula network" both sides compute from the row/lane number. -/
namespace Drv.NN
open _root_.NN Drv

/-- four of the 256 lanes -/
structure V4 where
  a : BitVec 16
  b : BitVec 16
  c : BitVec 16
  d : BitVec 16

instance : Add V4 := ⟨fun x y => ⟨x.a + y.a, x.b + y.b, x.c + y.c, x.d + y.d⟩⟩
instance : Sub V4 := ⟨fun x y => ⟨x.a - y.a, x.b - y.b, x.c - y.c, x.d - y.d⟩⟩

/-- `lowbias32` integer hash, as in h_nn.cpp -/
def h32 (x : Nat) : Nat :=
  let x := (x + 1) % 2^32
  let x := x ^^^ (x >>> 16)
  let x := (x * 0x7feb352d) % 2^32
  let x := x ^^^ (x >>> 15)
  let x := (x * 0x846ca68b) % 2^32
  x ^^^ (x >>> 16)

/-- weight formula: wide = any int16, narrow = [-64, 63] -/
def wF (wide : Bool) (x : Nat) : BitVec 16 :=
  let v := h32 x % 65536
  if wide then BitVec.ofNat 16 v else BitVec.ofInt 16 ((v % 128 : Nat) - 64)

def lanesOf (wide : Bool) (base : Nat) : V4 :=
  ⟨wF wide base, wF wide (base + 1), wF wide (base + 127), wF wide (base + 255)⟩

def net (wide : Bool) : Net V4 :=
  { idx := realIdx, W := fun r => lanesOf wide (r * 256), bias := lanesOf wide 0x05000000 }

structure UndoEnt where
  isNull : Bool
  board : Array Nat
  wtm : Bool

structure State where
  wide : Bool := true
  active : Bool := false
  board : Array Nat := Array.replicate 64 0
  wtm : Bool := true
  undo : List UndoEnt := []
  st : St V4 := St.init ⟨0, 0, 0, 0⟩

instance : Inhabited State := ⟨{}⟩

def maxUndo : Nat := 190

def boardFn (a : Array Nat) : Board := fun s => a.getD s 0

/-- strict decimal integer (what `std::stoll` + full-consumption check accepts, without the `+` form) -/
def dec? (s : String) : Option Int :=
  let neg := s.startsWith "-"
  let ds := (if neg then (s.drop 1).toString else s).toList
  if ds.isEmpty ∨ ds.length > 18 ∨ ¬ ds.all (fun c => '0' ≤ c ∧ c ≤ '9') then none
  else
    let n := ds.foldl (fun acc c => acc * 10 + (c.toNat - '0'.toNat)) 0
    some (if neg then -(n : Int) else (n : Int))

def pieceOfChar (c : Char) : Option Nat :=
  (".KQRBNPkqrbnp".toList.idxOf? c)

def parseBoard (s : String) : Option (Array Nat) :=
  let cs := s.toList
  if cs.length ≠ 64 then none else
  match cs.mapM pieceOfChar with
  | none => none
  | some ps =>
    let nk1 := ps.count 1
    let nk7 := ps.count 7
    let nonKing := (ps.filter (fun p => p != 0 && p != 1 && p != 7)).length
    if nk1 = 1 ∧ nk7 = 1 ∧ nonKing ≤ 30 then some ps.toArray else none

def countNonKing (a : Array Nat) : Nat := (a.toList.filter (fun p => p != 0 && p != 1 && p != 7)).length

def join (l : List Nat) : String := ",".intercalate (l.map toString)

def showFLS (tag : String) (s : FLS V4) : String :=
  let k := match s.ksq with | some k => toString k | none => "-"
  let l := match s.ksq with
    | some _ => s!"{s.l1.a.toInt},{s.l1.b.toInt},{s.l1.c.toInt},{s.l1.d.toInt}"
    | none => "-"
  s!" {tag} {k} [{join s.toAdd}] [{join s.toSub}] {l}"

def stateLine (st : St V4) : String :=
  s!"{st.below.length}{showFLS "W" st.top.w}{showFLS "B" st.top.b}"

def reply (s : State) : State × String := (s, stateLine s.st ++ " ok")

def step (s : State) (args : List String) : State × String :=
  let N := net s.wide
  match args with
  | ["mknet", k, _] => if k = "wide" ∨ k = "narrow" then (s, "ok") else (s, "bad-op")
  | ["kind", k] =>
    if k = "wide" then ({ s with wide := true }, "ok wide")
    else if k = "narrow" then ({ s with wide := false }, "ok narrow")
    else (s, "bad-op")
  | ["new", b, w, c, e, h, f] =>
    match parseBoard b, dec? c, dec? e, dec? h, dec? f with
    | some arr, some c, some e, some h, some f =>
      if (w = "w" ∨ w = "b") ∧ 0 ≤ c ∧ c ≤ 15 ∧ -1 ≤ e ∧ e ≤ 63 ∧ 0 ≤ h ∧ h ≤ 100 ∧ 1 ≤ f ∧ f ≤ 10000 then
        reply { s with active := true, board := arr, wtm := w = "w", undo := [], st := forceFullEval s.st }
      else (s, "bad-op")
    | _, _, _, _, _ => (s, "bad-op")
  | ["mk", f, t, pr] =>
    if ¬ s.active then (s, "bad-op") else
    match dec? f, dec? t, dec? pr with
    | some f, some t, some pr =>
      if 0 ≤ f ∧ f ≤ 63 ∧ 0 ≤ t ∧ t ≤ 63 ∧ f ≠ t ∧ (pr = 0 ∨ (2 ≤ pr ∧ pr ≤ 5) ∨ (8 ≤ pr ∧ pr ≤ 11)) then
        let f := f.toNat; let t := t.toNat; let pr := pr.toNat
        let b := boardFn s.board
        if b f = 0 ∨ b t = 1 ∨ b t = 7 ∨ s.undo.length ≥ maxUndo then (s, "bad-op") else
        let chg := moveChanges b f t pr
        let r := runTr N s.st b ((Op.push, b) :: changesTrace b chg)
        let arr := chg.foldl (fun a x => a.setIfInBounds x.1 x.2) s.board
        reply { s with board := arr, wtm := !s.wtm, undo := ⟨false, s.board, s.wtm⟩ :: s.undo, st := r.1 }
      else (s, "bad-op")
    | _, _, _ => (s, "bad-op")
  | ["un"] =>
    if ¬ s.active then (s, "bad-op") else
    match s.undo with
    | [] => (s, "bad-op")
    | u :: rest =>
      if u.isNull then reply { s with wtm := u.wtm, undo := rest }
      else reply { s with board := u.board, wtm := u.wtm, undo := rest, st := _root_.NN.step N s.st (boardFn s.board) Op.pop }
  | ["null"] =>
    if ¬ s.active ∨ s.undo.length ≥ maxUndo then (s, "bad-op") else
    reply { s with wtm := !s.wtm, undo := ⟨true, s.board, s.wtm⟩ :: s.undo }
  | ["set", sq, p] =>
    if ¬ s.active then (s, "bad-op") else
    match dec? sq, dec? p with
    | some sq, some p =>
      if 0 ≤ sq ∧ sq ≤ 63 ∧ 0 ≤ p ∧ p ≤ 12 ∧ p ≠ 1 ∧ p ≠ 7 then
        let sq := sq.toNat; let p := p.toNat
        let old := s.board.getD sq 0
        if old = 1 ∨ old = 7 ∨ ¬ s.undo.isEmpty then (s, "bad-op") else
        if countNonKing s.board - (if old != 0 then 1 else 0) + (if p != 0 then 1 else 0) > 30 then (s, "bad-op") else
        reply { s with board := s.board.setIfInBounds sq p, st := _root_.NN.step N s.st (boardFn s.board) (Op.setPiece sq old p) }
      else (s, "bad-op")
    | _, _ => (s, "bad-op")
  | ["copy"] => if ¬ s.active then (s, "bad-op") else reply { s with st := _root_.NN.step N s.st (boardFn s.board) Op.reset }
  | ["reconnect"] => if ¬ s.active then (s, "bad-op") else reply { s with st := _root_.NN.step N s.st (boardFn s.board) Op.reset }
  | ["eval"] => if ¬ s.active then (s, "bad-op") else reply { s with st := _root_.NN.step N s.st (boardFn s.board) Op.eval }
  | _ => (s, "bad-op")

end Drv.NN
