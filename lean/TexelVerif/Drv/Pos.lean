import TexelVerif.PosImpl.Model
import TexelVerif.Chess.Fen
import TexelVerif.Drv.Chess
/-! Line protocol for the `Position` model (property C02): replays make / take-back / null-move-edit / copy
    histories on `PosImpl` and prints every field after every op, in the format of `harness/h_pos.cpp`. -/
namespace Drv.Pos
open _root_.Chess _root_.PosImpl Drv

structure State where
  tables : Option Tables := none

def hx (n : Nat) : String := hexNat n

def parseHex? (s : String) : Option Nat := parseNat? ("0x" ++ s)

/-- the table dump of `pos tables`: hashEmpty, whiteHashKey, 16 castle keys, 9 e.p. keys, 13×64 piece-square keys
    (hex), 13 piece values, kV, 13 MatId weights (decimal) -/
def parseTables (toks : List String) : Option Tables := do
  if toks.length != 2 + 16 + 9 + 13 * 64 + 13 + 1 + 13 then none
  let hexes ← (toks.take (2 + 16 + 9 + 13 * 64)).mapM parseHex?
  let ints ← (toks.drop (2 + 16 + 9 + 13 * 64)).mapM parseInt?
  let h := hexes.toArray
  let iv := ints.toArray
  -- the two facts the theorems need about the tables are checked on the dump
  if !((List.range 64).all fun s => h.getD (27 + s) 0 == 0) then none
  if iv.getD 14 0 != 0 then none
  let key (i : Nat) : BB := BitVec.ofNat 64 (h.getD i 0)
  pure { ps := fun p s => if p = 0 then 0 else key (27 + p.toNat * 64 + s)
         white := key 1
         castle := fun i => key (2 + i)
         ep := fun i => key (18 + i)
         empty := key 0
         value := fun p => iv.getD p.toNat 0
         kV := iv.getD 13 0
         mat := fun p => if p = 0 then 0 else BitVec.ofInt 32 (iv.getD (14 + p.toNat) 0)
         ps0 := by intro s; simp
         mat0 := by simp }

def under (s : String) : String := s.map fun c => if c == ' ' then '_' else c

def optSq (e : Option Sq) : Int := match e with | none => -1 | some e => e.val
def optNat (e : Option Nat) : Int := match e with | none => -1 | some e => e

def record (T : Tables) (op : String) (s : PosImpl) (extra : String) : String :=
  let p := abs s
  let bbs := ",".intercalate ((List.range 12).map fun i => hx (s.pbb (i + 1)).toNat)
  let chk := if s = fresh T p then "ok" else "MISMATCH:model"
  let fen := toFEN p
  let rt := match readFEN fen with
    | .ok q =>
      -- the (repaired) reader clamps both counters to 0..65535; beyond that the round trip is exact up to the clamp
      let want := fixupEP p
      let want := { want with hmc := min want.hmc 65535, fmc := min want.fmc 65535 }
      if q = want then (if p.hmc > 65535 ∨ p.fmc > 65535 then "clamped" else "ok") else "MISMATCH:model"
    | .error e => "err:" ++ e.toString
  let sd := serialize s
  let ser := ",".intercalate (sd.map hx)
  let serOk := if s.halfMoveClock < 256 ∧ s.fullMoveCounter < 65536 then
      (if deSerialize T sd = s then "/ok" else "/MISMATCH:model") else "/out-of-range"
  s!"{op} hk={hx s.hashKey.toNat} ph={hx s.pHashKey.toNat} mid={s.matId.toInt} bb={bbs} w={hx s.whiteBB.toNat} b={hx s.blackBB.toNat} wk={optNat s.wKingSq} bk={optNat s.bKingSq} wtm={b2s s.whiteMove} cm={s.castleMask.toNat} ep={optSq s.epSquare} hmc={s.halfMoveClock} fmc={s.fullMoveCounter} mt={s.wMtrl},{s.bMtrl},{s.wMtrlPawns},{s.bMtrlPawns} chk={chk} fen={under fen} rt={rt} ser={ser}{serOk}{extra}"

structure Frame where
  isNull : Bool
  m : Mv
  ui : UndoInfo
  saved : Option Sq × Nat
  before : PosImpl

def runOps (T : Tables) : List String → PosImpl → List Frame → List String → List String
  | [], _, _, acc => acc.reverse
  | op :: rest, s, stack, acc =>
    if op.length ≥ 5 ∧ op.front == 'm' then
      match Drv.Chess.parseUci? s.whiteMove (op.drop 1).toString with
      | none => ("illegal" :: acc).reverse
      | some m =>
        if !legalB (abs s) m then ("illegal" :: acc).reverse
        else
          let (s', ui) := makeMove T s m
          -- run-time instance of `makeMove_refines`
          let extra := if abs s' = Chess.apply (abs s) m then "" else " MODEL-MISMATCH:refines"
          runOps T rest s' ({ isNull := false, m := m, ui := ui, saved := (none, 0), before := s } :: stack)
            (record T op s' extra :: acc)
    else if op == "n" then
      if inCheck s.squares s.whiteMove then ("illegal" :: acc).reverse
      else
        let (s', saved) := nullEdit T s
        runOps T rest s' ({ isNull := true, m := ⟨0, 0, 0⟩, ui := ⟨0, 0, none, 0⟩, saved := saved, before := s } :: stack)
          (record T op s' "" :: acc)
    else if op == "u" then
      match stack with
      | [] => ("illegal" :: acc).reverse
      | f :: stack' =>
        let s' := if f.isNull then nullUndo T s f.saved else unMakeMove T s f.m f.ui
        runOps T rest s' stack' (record T op s' (if s' = f.before then " tb=ok" else " tb=MISMATCH:model") :: acc)
    else if op == "c" then
      let s' := copy s
      runOps T rest s' stack (record T op s' " cp=ok" :: acc)
    else ("bad-op" :: acc).reverse

def splitBar (toks : List String) : List String × List String :=
  let (a, b) := toks.span (· ≠ "|")
  (a, b.drop 1)

def masks : String :=
  let w := (List.range 8).map fun i => hx (epMaskW i).toNat
  let b := (List.range 8).map fun i => hx (epMaskB i).toNat
  let c := (List.finRange 64).map fun s => toString (castleKeep s).toNat
  " ".intercalate (w ++ b ++ c)

/-- `MatId::materialId[]` as the theorems of `PosImpl/MatId.lean` assume it (`Props.C02.matWeights_eq`) -/
def matWeights : List Nat :=
  [0, 0, 5903, 9, 767, 91, 1, 0, 5903 * 65536, 9 * 65536, 767 * 65536, 91 * 65536, 1 * 65536]

def step (st : State) (args : List String) : State × String :=
  match args with
  | "init" :: rest =>
    match parseTables rest with
    | some T => ({ st with tables := some T }, "ok")
    | none => (st, "tables-bad")
  | ["masks"] => (st, masks)
  | ["matw"] => (st, " ".intercalate (matWeights.map toString))
  | "run" :: rest =>
    match st.tables with
    | none => (st, "no-tables")
    | some T =>
      if rest.isEmpty then (st, "bad-op") else
      let (fenToks, ops) := splitBar rest
      match readFEN (Drv.Chess.fenOf fenToks) with
      | .error e => (st, "err " ++ e.toString)
      | .ok p =>
        let s := fresh T p
        (st, " ; ".intercalate (runOps T ops s [] [record T "start" s ""]))
  | _ => (st, "bad-op")

end Drv.Pos
