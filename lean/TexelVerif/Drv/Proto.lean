import TexelVerif.Conc.Model
import TexelVerif.Drv.Util
/-! Trace acceptor for the protocol model (properties C10 / C09).

    Line protocol (`proto …`):
      `proto reset` | `proto reset strict`            → `ok`   (strict: also check `exitQuiet`, property C09)
      `proto ev <seq> <tid> <self> <KIND> <a> <b> <c> <d>` → `ok` | `reject <why>` | `skip` (after a reject)
      `proto end`                                     → `ok go=<g> bm=<b> …` | `reject <why>`
    Each hook event is translated to the model event(s) it stands for and replayed through
    `Conc.step`; events that only report thread-local values are checked against the model state. -/
namespace Drv.Proto
open Conc Drv

/-- number of communicator slots of the acceptor (the theorems hold for every n) -/
abbrev N : Nat := 40

structure PState where
  st : St N := Conc.init ⟨0, by decide⟩
  root : Fin N := ⟨0, by decide⟩
  haveRoot : Bool := false
  slots : List (Int × Fin N) := [(0, ⟨0, by decide⟩)]   -- communicator id ↦ slot (the root communicator is created first: id 0)
  dead : Bool := false
  retired : List Int := []                    -- ids of helper communicators whose thread has terminated
  lastRootDeq : Int × Int := (-1, -1)        -- type and job id of the command the engine thread dequeued last
  strict : Bool := false                    -- also check `exitQuiet` of Conc/Access.lean at every thread termination (C09)
  count : Nat := 0

instance : Inhabited PState := ⟨{}⟩

/-- array-backed function; `ofArr a` is a partial application holding the evaluated array -/
@[noinline] def ofArr {α : Type} [Inhabited α] (a : Array α) (i : Fin N) : α := a[i.val]!

/-- re-tabulate the function fields (extensionally the identity; keeps lookups O(1)) -/
def norm (s : St N) : St N :=
  let a1 := Array.ofFn s.parent
  let a2 := Array.ofFn s.alive
  let a3 := Array.ofFn s.depth
  let a4 := Array.ofFn s.q
  let a5 := Array.ofFn s.flag
  let a6 := Array.ofFn s.selfWait
  let a7 := Array.ofFn s.childWait
  let a8 := Array.ofFn s.quitWait
  let a9 := Array.ofFn s.out
  let a10 := Array.ofFn s.pc
  let a11 := Array.ofFn s.jobId
  let a12 := Array.ofFn s.jobEp
  let a13 := Array.ofFn s.hasResult
  let a14 := Array.ofFn s.gen
  { s with parent := ofArr a1, alive := ofArr a2, depth := ofArr a3, q := ofArr a4,
           flag := ofArr a5, selfWait := ofArr a6, childWait := ofArr a7,
           quitWait := ofArr a8, out := ofArr a9, pc := ofArr a10, jobId := ofArr a11,
           jobEp := ofArr a12, hasResult := ofArr a13, gen := ofArr a14 }

def slotOf (ps : PState) (id : Int) : Option (Fin N) := (ps.slots.find? (fun p => p.1 == id)).map (·.2)

def freeSlot (ps : PState) : Option (Fin N) :=
  (List.finRange N).find? (fun v => !ps.st.alive v && !(ps.slots.any (fun p => p.2 == v)))

def typeCode : Cmd N → Int
  | .init => 1 | .start _ _ => 2 | .stop => 3 | .quit => 5 | .report _ _ _ => 6 | .ack _ => 7 | .quitAck _ => 8

def jobOf : Cmd N → Int
  | .start _ j => j | .report _ _ j => j | _ => -1

def matchCmd (c : Cmd N) (ty job : Int) : Bool := typeCode c == ty && jobOf c == job

def showCmd (c : Cmd N) : String := s!"{typeCode c}/{jobOf c}"

def showPc (p : Pc) : String := reprStr p

def varOf : Int → Option Var
  | 0 => some .ponder | 1 => some .infinite | 2 => some .quit | 3 => some .search | 4 => some .hold | _ => none

abbrev R := Except String PState

def doStep (ps : PState) (e : Ev N) (what : String) : R :=
  match Conc.step ps.root ps.st e with
  | some s' => .ok { ps with st := norm s' }
  | none => .error s!"{what}: not an enabled model step"

def check (ps : PState) (b : Bool) (why : String) : R := if b then .ok ps else .error why

def needSlot (ps : PState) (id : Int) : Except String (Fin N) :=
  match slotOf ps id with
  | some v => .ok v
  | none => .error s!"unknown communicator {id}"

def isRootId (ps : PState) (id : Int) : Bool := slotOf ps id == some ps.root

/-- one hook event -/
def onEvent (ps : PState) (self : Int) (kind : String) (a b c d : Int) : R := do
  let s := ps.st
  match kind with
  | "ENGINE_START" =>
      if ps.haveRoot || a != 0 then .error "unexpected ENGINE_START" else .ok { ps with haveRoot := true }
  | "THREAD_START" =>
      let p ← needSlot ps b
      match freeSlot ps with
      | none => .error "out of slots"
      | some v =>
        let ps1 := { ps with slots := (a, v) :: ps.slots }
        doStep ps1 (.spawn v p) s!"spawn {a} under {b}"
  | "THREAD_EXIT" =>
      let v ← needSlot ps a
      -- the quit path leaves the loop by itself (`hasQuitAck`); otherwise the thread was terminated by ~WorkerThread
      if s.pc v == .done then .ok ps else
      doStep ps (.tend v) s!"thread end {a} (pc {showPc (s.pc v)}, terminate {b}, engine pc {showPc (s.pc ps.root)})"
  | "COMM_GONE" =>
      match slotOf ps a with
      | none => .ok ps
      | some v =>
        if v == ps.root || s.pc v == .done then .ok ps else
        let quiet := match s.parent v with
          | some p => p == ps.root || s.pc p == .wait || s.pc p == .done || s.pc p == .gone
          | none => true
        if ps.strict && !quiet then .error s!"exit-not-quiet: the communicator of helper {a} is destroyed while its parent's thread is running (parent pc {match s.parent v with | some p => showPc (s.pc p) | none => "-"})" else
        let ps1 ← doStep ps (.exit v) s!"communicator {a} destroyed (pc {showPc (s.pc v)})"
        .ok { ps1 with slots := ps1.slots.filter (fun p => p.1 != a), retired := a :: ps1.retired }
  | "WAIT_RET" =>
      let v ← needSlot ps a
      doStep ps (.waitRet v) s!"WAIT_RET {a} (pc {showPc (s.pc v)}, flag {s.flag v})"
  | "NOTIFY" =>
      -- `~WorkerThread`: terminate; notify; join — the thread may have seen `terminate` and left before this notify is logged
      if ps.retired.contains a && (self == -1 || isRootId ps self) then .ok ps else
      let t ← needSlot ps a
      if self == -1 then doStep ps (.pNotify t) "P notify"
      else
        let v ← needSlot ps self
        -- after the engine loop has ended the main thread runs ~WorkerThread (terminate; notify; join)
        if v == ps.root && s.pc v == .edone then doStep ps (.pNotify t) "destructor notify" else
        doStep ps (.send v (.notify t)) s!"NOTIFY {a} by {self}: no such pending notify (pc {showPc (s.pc v)})"
  | "ENQ" =>
      let v ← needSlot ps self
      let t ← needSlot ps a
      match (s.out v).find? (fun o => match o with | .enq t' c' => t' == t && matchCmd c' b c | _ => false) with
      | none => .error s!"ENQ {a} {b} {c} by {self}: the model has no such pending enqueue (pc {showPc (s.pc v)}, pending {(s.out v).length})"
      | some o =>
        let ps1 ← doStep ps (.send v o) "ENQ"
        check ps1 ((ps1.st.q t).length == d.toNat) s!"ENQ {a} {b} {c}: queue length {d} but model has {(ps1.st.q t).length}"
  | "ENQ_NN" => .error s!"enqueue to {a} (type {b}) without notifying the target's notifier"
  | "DEQ" =>
      let v ← needSlot ps a
      match s.q v with
      | [] => .error s!"DEQ {a} {b} {c}: model queue is empty"
      | h :: rest =>
        if !(matchCmd h b c) then .error s!"DEQ {a} {b}/{c}: model queue head is {showCmd h}" else
        if rest.length != d.toNat then .error s!"DEQ {a} {b}/{c}: {d} commands remain but model has {rest.length}" else
        let ps0 := if v == ps.root then { ps with lastRootDeq := (b, c) } else ps
        doStep ps0 (.deq v) s!"DEQ {a} {b}/{c} (pc {showPc (s.pc v)})"
  | "POLL_EMPTY" =>
      let v ← needSlot ps a
      doStep ps (.pollEmpty v) s!"POLL_EMPTY {a} (pc {showPc (s.pc v)}, queue {(s.q v).length}, pending {(s.out v).length})"
  | "STOP_SEND" =>
      let v ← needSlot ps a
      let ps1 ← if v == ps.root then doStep ps .eStopSend s!"STOP_SEND root (pc {showPc (s.pc v)})" else .ok ps
      check ps1 (ps1.st.selfWait v && ps1.st.childWait v == b.toNat && b ≥ 0)
        s!"STOP_SEND {a}: waits for {b} children, model {ps1.st.childWait v} (selfWait {ps1.st.selfWait v})"
  | "ACK_SELF" =>
      let v ← needSlot ps a
      let ps1 ← check ps ((s.selfWait v) == (b != 0) && s.childWait v == c.toNat && c ≥ 0)
        s!"ACK_SELF {a}: selfWait/children {b}/{c}, model {s.selfWait v}/{s.childWait v}"
      doStep ps1 (.ackSelf v) s!"ACK_SELF {a} (pc {showPc (s.pc v)})"
  | "ACK_CHILD" =>
      let v ← needSlot ps a
      check ps (b ≥ 0 && s.childWait v == b.toNat) s!"ACK_CHILD {a}: {b} left, model {s.childWait v}"
  | "QUIT_SEND" =>
      let v ← needSlot ps a
      let ps1 ← if v == ps.root then doStep ps .eQuitSend s!"QUIT_SEND root (pc {showPc (s.pc v)})" else .ok ps
      check ps1 (nChildren ps1.st v == b.toNat) s!"QUIT_SEND {a}: {b} children, model {nChildren ps1.st v}"
  | "QUIT_DEC" =>
      let v ← needSlot ps a
      check ps (s.quitWait v == b) s!"QUIT_DEC {a}: {b} left, model {s.quitWait v}"
  | "INIT_SEND" =>
      let v ← needSlot ps a
      let ps1 ← if v == ps.root then doStep ps .eInit s!"INIT_SEND root (pc {showPc (s.pc v)})" else .ok ps
      check ps1 (nChildren ps1.st v == b.toNat) s!"INIT_SEND {a}: {b} children, model {nChildren ps1.st v}"
  | "START_SEND" =>
      let v ← needSlot ps a
      check ps (nChildren s v == c.toNat) s!"START_SEND {a}: {c} children, model {nChildren s v}"
  | "JOB_SET" =>
      let v ← needSlot ps a
      check ps (s.jobId v == some b.toNat && b ≥ 0) s!"JOB_SET {a} {b}: model job {s.jobId v}"
  | "JOB_CLR" =>
      let v ← needSlot ps a
      if b == 2 then doStep ps (.searchLeave v true) s!"maximum depth in {a} (pc {showPc (s.pc v)})"
      else check ps (s.jobId v == none) s!"JOB_CLR {a}: model job {s.jobId v}"
  | "RESULT_OWN" =>
      let v ← needSlot ps a
      let ps1 ← check ps (s.pc v == .search b.toNat) s!"RESULT_OWN {a} {b}: model pc {showPc (s.pc v)}"
      doStep ps1 (.searchResult v) "RESULT_OWN"
  | "RESULT_FWD" =>
      let v ← needSlot ps a
      check ps ((s.out v).any (fun o => match o with | .enq _ (.report _ _ j) => j == b.toNat | _ => false))
        s!"RESULT_FWD {a} {b}: the model does not forward this result (job {s.jobId v}, hasResult {s.hasResult v})"
  | "RESULT_DROP" =>
      if a == -1 then check ps (b != c.toNat || true) "" else
      let v ← needSlot ps a
      check ps ((s.out v).isEmpty) s!"RESULT_DROP {a} {b}: the model forwards this result"
  | "RESULT_TAKE" =>
      check ps (s.pc ps.root == .esearch && s.ejob == b.toNat && b == c) s!"RESULT_TAKE {b}: model job {s.ejob}, pc {showPc (s.pc ps.root)}"
  | "RESULT_USED" =>
      -- Search::negaScoutRoot caught HelperThreadResult: the result actually consumed must be the REPORT_RESULT just
      -- dequeued, and it must carry the current job id
      check ps (s.pc ps.root == .esearch && ps.lastRootDeq == (6, a) && s.ejob == a.toNat && a ≥ 0)
        s!"a helper result was consumed for job {a} but the last command dequeued by the engine thread was {ps.lastRootDeq.1}/{ps.lastRootDeq.2} and the model's job is {s.ejob}"
  | "SEARCH_ENTER" =>
      let v ← needSlot ps a
      check ps (s.pc v == .search b.toNat) s!"SEARCH_ENTER {a} {b}: model pc {showPc (s.pc v)}"
  | "SEARCH_LEAVE" =>
      let v ← needSlot ps a
      match s.pc v with
      | .ackSelf => .ok ps       -- already left through the maximum-depth branch
      | _ => doStep ps (.searchLeave v false) s!"SEARCH_LEAVE {a} (pc {showPc (s.pc v)}, job {s.jobId v})"
  | "E_RD_PRE" =>
      match varOf a with
      | some x => doStep ps (.eRdPre x) s!"E_RD_PRE {a} (pc {showPc (s.pc ps.root)})"
      | none => .error "bad var"
  | "E_RD" =>
      match varOf a with
      | some x => doStep ps (.eRd x (b != 0)) s!"E_RD {a} {b} (pc {showPc (s.pc ps.root)})"
      | none => .error "bad var"
  | "E_OPTS" => doStep ps (.eOpts (a != 0)) s!"E_OPTS {a} (pc {showPc (s.pc ps.root)}, pending {s.pend})"
  | "SEARCH_BEGIN" => doStep ps .eBegin s!"SEARCH_BEGIN (pc {showPc (s.pc ps.root)})"
  | "JOB_NEXT" =>
      let ps1 ← doStep ps .eJobNext s!"JOB_NEXT {a} (pc {showPc (s.pc ps.root)})"
      check ps1 (ps1.st.ejob == a.toNat) s!"JOB_NEXT {a}: model job {ps1.st.ejob}"
  | "SEARCH_DONE" => doStep ps .eSearchDone s!"SEARCH_DONE (pc {showPc (s.pc ps.root)})"
  | "HOLD_DONE" => doStep ps .eHoldDone s!"HOLD_DONE (pc {showPc (s.pc ps.root)}, ponder {s.ponder.cur}, infinite {s.infinite.cur})"
  | "BESTMOVE" =>
      let ps1 ← check ps (s.pc ps.root == .ebest (a != 0)) s!"BESTMOVE {a}: model pc {showPc (s.pc ps.root)}"
      doStep ps1 .eBest "BESTMOVE"
  | "SEARCH_END" => doStep ps .eSearchEnd s!"SEARCH_END (pc {showPc (s.pc ps.root)})"
  | "P_WR" =>
      match varOf a with
      | some x => doStep ps (.pWr x (b != 0)) s!"P_WR {a} {b} (search {s.search.cur})"
      | none => .error "bad var"
  | "P_WD" =>
      match varOf a with
      | some x => doStep ps (.pWd x) s!"P_WD {a}"
      | none => .error "bad var"
  | "P_WAITSTOP" => doStep ps .pWaitStop "waitStop returned while the model's search flag is set"
  | "P_WAITOPTS" => doStep ps .pWaitOpts "waitOptionsSet returned while the model's options are not applied"
  | "P_SETOPT" => doStep ps .pSetOpt "P_SETOPT"
  | "RECONF_BEGIN" => .ok ps
  | "RECONF_END" => check ps (nChildren s ps.root + 1 ≤ a.toNat || a ≤ 1) s!"RECONF_END {a}"
  | "OVERFLOW" => .error "event log overflow"
  | k => .error s!"unknown event kind {k}"

def summary (s : St N) (r : Fin N) : String :=
  s!"go={s.goCount} bm={s.bmCount} pc={showPc (s.pc r)} search={b2s s.search.cur} quit={b2s s.quitF.cur} helpers={((List.finRange N).filter (fun v => s.alive v)).length - 1}"

/-- final-state audit: every `go` was answered and nothing is left in flight -/
def finalCheck (ps : PState) : Except String String :=
  let s := ps.st
  let r := ps.root
  if s.goCount != s.bmCount then .error s!"{s.goCount} searches started, {s.bmCount} best moves" else
  if s.search.cur then .error "search flag still set" else
  if (List.finRange N).any (fun v => s.alive v && (!(s.q v).isEmpty || !(s.out v).isEmpty || s.selfWait v || s.childWait v != 0)) then
    .error "commands or acknowledgements still in flight" else
  if s.quitF.cur && s.pc r != .edone then .error s!"quit requested but engine thread at {showPc (s.pc r)}" else
  .ok (summary s r)

def step (ps : PState) (args : List String) : PState × String :=
  match args with
  | ["reset"] => ({}, "ok")
  | ["reset", "strict"] => ({ strict := true }, "ok")
  | ["end"] =>
      if ps.dead then (ps, "skip") else
      match finalCheck ps with
      | .ok m => (ps, s!"ok {m}")
      | .error m => (ps, s!"reject final: {m}")
  | ["ev", _seq, _tid, self, kind, a, b, c, d] =>
      if ps.dead then (ps, "skip") else
      match parseInt? self, allInt? [a, b, c, d] with
      | some self, some [a, b, c, d] =>
        match onEvent ps self kind a b c d with
        | .ok ps' => ({ ps' with count := ps'.count + 1 }, "ok")
        | .error m => ({ ps with dead := true }, s!"reject {m}")
      | _, _ => (ps, "bad-op")
  | _ => (ps, "bad-op")

end Drv.Proto
