import TexelVerif.Time.StopRule
import TexelVerif.Drv.Util
/-! Line protocol for the time-management model (property C06).
    The floating-point steps of the C++ code are evaluated with IEEE doubles (`Float`), operation by operation as in
    enginecontrol.cpp:389-399 and search.cpp:454; everything else is the `Int` model the theorems are about. -/
namespace Drv.Time
open Tm Drv

/-- `std::min(a, b)` / `std::max(a, b)` on doubles. -/
def fmin (a b : Float) : Float := if b < a then b else a
def fmax (a b : Float) : Float := if a < b then b else a

/-- `(int)d` / `(S64)d`: truncation towards zero. -/
def trunc (d : Float) : Int := d.toInt64.toInt

def fpFloat : FP where
  bonus o tl rate :=
    let k := Float.ofInt rate * 0.01
    trunc (fmin (Float.ofInt o) (Float.ofInt tl / (1.0 - k)) * k)
  scale m moves mu :=
    trunc (Float.ofInt m * fmin (fmax (Float.ofInt moves * 0.5) 2.0) (Float.ofInt mu * 0.01))

def showAlloc (a : Alloc) : String := s!"{a.minT} {a.maxT} {a.early} {a.maxDepth} {a.maxNodes}"
def showLim (l : Lim) : String := s!"{l.minT} {l.maxT} {l.early}"

def inInt (l : List Int) : Bool := l.all fun v => decide (-2147483648 ≤ v ∧ v ≤ 2147483647)

def step (args : List String) : String :=
  match args with
  | ["params"] => let p := Params.default; s!"{p.maxRem} {p.buffer} {p.maxUsage} {p.ponderRate} {p.minUsage}"
  | ["alloc", white, ponder, buffer, wt, bt, wi, bi, mtg, mt, depth, nodes, mate, inf] =>
    match allInt? [white, ponder, buffer, wt, bt, wi, bi, mtg, mt, depth, nodes, mate, inf] with
    | some [white, ponder, buffer, wt, bt, wi, bi, mtg, mt, depth, nodes, mate, inf] =>
      if ¬ inInt [buffer, wt, bt, wi, bi, mtg, mt, depth, nodes, mate] ∨ buffer < 1 ∨ buffer > 10000 then "bad-op" else
      let g : Go := { wTime := wt, bTime := bt, wInc := wi, bInc := bi, movesToGo := mtg, depth := depth, nodes := nodes,
                      mate := mate, moveTime := mt, infinite := inf != 0 }
      showAlloc (compute fpFloat { Params.default with buffer := buffer } (white != 0) (ponder != 0) g)
    | _ => "bad-op"
  -- startSearch: limits and depth handed to the search for a position with nMoves legal moves
  | ["start", mn, mx, early, depth, nodes, nMoves] =>
    match allInt? [mn, mx, early, depth, nodes, nMoves] with
    | some [mn, mx, early, depth, nodes, nMoves] =>
      let a : Alloc := { minT := mn, maxT := mx, early := early, maxDepth := depth, maxNodes := nodes }
      s!"{showLim (startLim Params.default a nMoves)} {startDepth a nMoves}"
    | _ => "bad-op"
  | ["ponder"] => showLim (ponderLim Params.default)
  | ["stop"] => showLim (stopLim Params.default)
  | ["hit", mn, mx, early, nMoves] =>
    match allInt? [mn, mx, early, nMoves] with
    | some [mn, mx, early, nMoves] =>
      let a : Alloc := { minT := mn, maxT := mx, early := early, maxDepth := -1, maxNodes := -1 }
      showLim (ponderHitLim Params.default a nMoves)
    | _ => "bad-op"
  -- Search::shouldStop at virtual time `now`; hardFactor = hf / 1024
  | ["poll", now, tStart, mn, mx, early, need, hf, maxNodes, totNodes, maxNPS] =>
    match allInt? [now, tStart, mn, mx, early, need, hf, maxNodes, totNodes, maxNPS] with
    | some [now, tStart, mn, mx, early, need, hf, maxNodes, totNodes, maxNPS] =>
      if hf < 0 ∨ maxNPS < 0 ∨ totNodes < 0 then "bad-op" else
      let l : Lim := { minT := mn, maxT := mx, early := early }
      let x := trunc (Float.ofInt mn * (Float.ofInt hf / 1024.0))
      let stop := shouldStop (now - tStart) l (need != 0) x maxNodes totNodes
      let slp := if stop then 0 else npsSleep maxNPS (now - tStart) totNodes
      s!"{b2s stop} {slp}"
    | _ => "bad-op"
  | ["nbtc", maxNPS] => match parseInt? maxNPS with
    | some n => if n < 0 then "bad-op" else s!"{nodesBetweenTimeCheck n}"
    | none => "bad-op"
  | ["root", elapsed, mn, mx, need] =>
    match allInt? [elapsed, mn, mx, need] with
    | some [elapsed, mn, mx, need] => b2s (rootStop elapsed { minT := mn, maxT := mx, early := 0 } (need != 0))
    | _ => "bad-op"
  | _ => "bad-op"

end Drv.Time
