import TexelVerif.TB.OnDemand
import TexelVerif.Drv.Util
/-! Line protocol for C13: what the root of a ≤ 4-man pawnless position with certified value v may announce. -/
namespace Drv.TB13
open Drv

def step (args : List String) : String :=
  match args with
  | ["expect", kind, n, hmc] =>
    match parseNat? n, parseInt? hmc with
    | some n, some hmc =>
      let v : Option Cert.Val := match kind with
        | "win" => some (.win n) | "loss" => some (.loss n) | "draw" => some .draw | _ => none
      match v with
      | none => "bad-op"
      | some v => match _root_.TB13.expectedMate v hmc with
        | some m => s!"mate {m}"
        | none => "nomate"
    | _, _ => "bad-op"
  | ["ondemand", d, ply, hmc] =>
    match allInt? [d, ply, hmc] with
    | some [d, ply, hmc] =>
      let r := _root_.TB13.onDemand d ply hmc
      s!"{r.1} {match r.2.1 with | .exact => "exact" | .lower => "lower" | .upper => "upper"} {r.2.2}"
    | _ => "bad-op"
  | _ => "bad-op"

end Drv.TB13
