/-! Parsing / printing helpers of the line-protocol driver. -/
namespace Drv

def parseNat? (s : String) : Option Nat :=
  if s.startsWith "0x" then
    let ds := (s.drop 2).toString.toList
    if ds.isEmpty then none else
    ds.foldl (fun acc c => acc.bind fun a =>
      if '0' ≤ c ∧ c ≤ '9' then some (a * 16 + (c.toNat - '0'.toNat))
      else if 'a' ≤ c ∧ c ≤ 'f' then some (a * 16 + (c.toNat - 'a'.toNat + 10))
      else if 'A' ≤ c ∧ c ≤ 'F' then some (a * 16 + (c.toNat - 'A'.toNat + 10))
      else none) (some 0)
  else s.toNat?

def parseInt? (s : String) : Option Int :=
  if s.startsWith "-" then (parseNat? (s.drop 1).toString).map fun n => -(n : Int)
  else (parseNat? s).map fun n => (n : Int)

def hexDigit (n : Nat) : Char := if n < 10 then Char.ofNat (48 + n) else Char.ofNat (87 + n)

partial def hexNat (n : Nat) : String :=
  if n < 16 then String.singleton (hexDigit n) else hexNat (n / 16) ++ String.singleton (hexDigit (n % 16))

def hex (n : Nat) : String := "0x" ++ hexNat n

def allNat? (l : List String) : Option (List Nat) := l.mapM parseNat?
def allInt? (l : List String) : Option (List Int) := l.mapM parseInt?

def b2s (b : Bool) : String := if b then "1" else "0"

end Drv
