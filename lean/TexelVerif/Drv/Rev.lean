import TexelVerif.Chess.UnMove
import TexelVerif.Drv.Util
/-! Line protocol for the un-move oracle (property C15): `rev gen <0|1> <fen>` prints `unMoves all Q` in the
    canonical form of the harness (sorted `uci:captured:castlemask:ep` tokens). -/
namespace Drv.Rev
open _root_.Chess Drv

def showUnMoves (l : List UnMv) : String :=
  let v := ((l.map unMvToString).toArray.qsort (· < ·)).toList
  s!"n={v.length}" ++ (if v.isEmpty then "" else " " ++ " ".intercalate v)

def step (args : List String) : String :=
  match args with
  | "gen" :: a :: rest =>
    if a != "0" && a != "1" || rest.isEmpty then "bad-op" else
    match readFEN (" ".intercalate rest) with
    | .ok q => showUnMoves (unMoves (a == "1") q)
    | .error e => "err " ++ e.toString
  | _ => "bad-op"

end Drv.Rev
