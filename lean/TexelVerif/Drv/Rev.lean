import TexelVerif.Chess.UnMove
import TexelVerif.Drv.Util
/-! Line protocol for the un-move oracle (property C15): `rev gen <0|1> <fen>` prints `unMoves all Q` in the
    canonical form of the harness (sorted `uci:captured:castlemask:ep` tokens). -/
namespace Drv.Rev
open _root_.Chess Drv

def showUnMoves (l : List UnMv) : String :=
  let v := ((l.map unMvToString).toArray.qsort (· < ·)).toList
  s!"n={v.length}" ++ (if v.isEmpty then "" else " " ++ " ".intercalate v)

def parseSq? (s : String) : Option Sq :=
  match s.toList with
  | [c0, c1] => mkSq? ((c0.toNat : Int) - 97) ((c1.toNat : Int) - 49)
  | _ => none

def parseMv? (w : Bool) (s : String) : Option Mv :=
  match s.toList with
  | [a, b, c, d] => do let f ← parseSq? (String.ofList [a, b]); let t ← parseSq? (String.ofList [c, d]); pure { f := f, t := t, promo := 0 }
  | [a, b, c, d, e] => do
    let f ← parseSq? (String.ofList [a, b]); let t ← parseSq? (String.ofList [c, d])
    let k : UInt8 ← (match e with | 'q' => some 2 | 'r' => some 3 | 'b' => some 4 | 'n' => some 5 | _ => none)
    pure { f := f, t := t, promo := if w then k else k + 6 }
  | _ => none

def parseUnMv? (w : Bool) (s : String) : Option UnMv :=
  match s.splitOn ":" with
  | [mv, cap, castle, ep] => do
    let m ← parseMv? w mv
    let cap ← parseNat? cap
    let castle ← parseNat? castle
    if cap > 12 || castle > 15 || m.f == m.t then none else
    let ep ← (if ep == "-" then some none else (parseSq? ep).map some)
    pure { m := m, ui := { cap := cap.toUInt8, castle := castle.toUInt8, ep := ep } }
  | _ => none

def step (args : List String) : String :=
  match args with
  | "pre" :: tok :: rest =>
    if rest.isEmpty then "bad-op" else
    match readFEN (" ".intercalate rest) with
    | .ok q =>
      match parseUnMv? (!q.wtm) tok with
      | some x => let p := unmake q x.m x.ui; toFENWith p.b p.wtm p.castle p.ep 0 1
      | none => "bad-op"
    | .error e => "err " ++ e.toString
  | "gen" :: a :: rest =>
    if a != "0" && a != "1" || rest.isEmpty then "bad-op" else
    match readFEN (" ".intercalate rest) with
    | .ok q => showUnMoves (unMoves (a == "1") q)
    | .error e => "err " ++ e.toString
  | _ => "bad-op"

end Drv.Rev
