import TexelVerif.Generated.TB
import TexelVerif.Bridge.Bits
/-!
# Bridge: tablebase-related score arithmetic regenerated from the source (C13)

* `rule50Margin` (tbprobe.cpp; the one-statement slice computing `margin`): the margin is non-negative exactly when the
  mate distance in plies from the current node, `MATE0 − 1 − |dtmScore| − ply`, fits into the `100 − hmc` plies left
  before the 50-move rule — "positions whose mate cannot be completed before the 50-move limit are not announced".
* `Evaluate::swindleScore` (evaluate.cpp; calls `BitUtil::lastBit`, whose correctness is `Bridge.Bits.lastBit_eq`):
  a swindle score is never a mate score — `|swindleScore e 0| ≤ 34 = minFrustrated − 1` with the sign of `e`, and
  `35 ≤ |swindleScore e d| ≤ 70` with the sign of `d` for `d ≠ 0`.
-/
set_option linter.unusedSimpArgs false
namespace Bridge.TB
open Gen.TB
theorem rule50Margin_eq (d ply hmc : Int) :
    rule50Margin d ply hmc = (100 - hmc) - (32000 - 1 - (d.natAbs : Int) - ply) := by
  simp only [rule50Margin]

theorem rule50Margin_nonneg (d ply hmc : Int) :
    0 ≤ rule50Margin d ply hmc ↔ (32000 - 1 - (d.natAbs : Int) - ply) ≤ 100 - hmc := by
  simp only [rule50Margin]; omega

theorem swindle_far (e d : Int) (hd : d ≠ 0) :
    (0 < d → 35 ≤ swindleScore e d ∧ swindleScore e d ≤ 70) ∧ (d < 0 → -70 ≤ swindleScore e d ∧ swindleScore e d ≤ -35) := by
  simp only [swindleScore, beq_iff_eq, hd, if_false]
  constructor <;> intro h
  · have e : (d.natAbs : Int) = d := by omega
    have hp : d > 0 := h
    simp [e, hp]
    omega
  · have e : (d.natAbs : Int) = -d := by omega
    have hp : ¬ d > 0 := by omega
    simp [e, hp]
    omega

theorem lastBit_same (m : BitVec 64) : Gen.TB.lastBit m = Gen.Bits.lastBit m := rfl


/-- `lastBit` of a positive number is its `log2` -/
theorem lastBit_log2 (n : Nat) (h0 : n ≠ 0) (h64 : n < 2^64) : lastBit (BitVec.ofNat 64 n) = (n.log2 : Int) := by
  have ht : (BitVec.ofNat 64 n).toNat = n := by simp [BitVec.toNat_ofNat, Nat.mod_eq_of_lt h64]
  rw [lastBit_same]
  apply Bridge.Bits.lastBit_eq _ n.log2 ((Nat.log2_lt h0).2 h64)
  · rw [← BitVec.testBit_toNat, ht]; exact Nat.testBit_log2 h0
  · intro j hj
    rw [← BitVec.testBit_toNat, ht]
    apply Nat.testBit_lt_two_pow
    calc n < 2^(n.log2 + 1) := Nat.lt_log2_self
      _ ≤ 2^j := Nat.pow_le_pow_right (by omega) hj

/-- the `distToWin == 0` branch before the sign is applied: a value in `[0, 34]` -/
theorem swindle_near_core (s : Nat) (h4 : 4 ≤ s) (h64 : s < 2^63) :
    let lg : Int := lastBit (BitVec.ofInt 64 (s : Int))
    0 ≤ min ((lg - 3) * 4 + ((s : Int) >>> (lg - 2).toNat)) (35 - 1) ∧ min ((lg - 3) * 4 + ((s : Int) >>> (lg - 2).toNat)) (35 - 1) ≤ 34 := by
  intro lg
  have h0 : s ≠ 0 := by omega
  have hlg : lg = (s.log2 : Int) := by
    simp only [lg, BitVec.ofInt_natCast]; exact lastBit_log2 s h0 (by omega)
  have h2 : 2 ≤ s.log2 := by
    rcases Nat.lt_or_ge s.log2 2 with h | h
    · have := (Nat.log2_lt h0).1 h; omega
    · exact h
  obtain ⟨k, hk⟩ : ∃ k, s.log2 = k + 2 := ⟨s.log2 - 2, by omega⟩
  have hlo : 2^(k+2) ≤ s := hk ▸ Nat.log2_self_le h0
  have hpow : 2^(k+2) = 4 * 2^k := by rw [Nat.pow_add]; omega
  have hq : 4 ≤ s / 2^k := by
    rw [Nat.le_div_iff_mul_le (Nat.two_pow_pos k)]; omega
  have e : ((s : Int) >>> (lg - 2).toNat) = ((s / 2^k : Nat) : Int) := by
    rw [hlg, hk, Int.shiftRight_eq_div_pow]
    have : ((k + 2 : Nat) : Int) - 2 = (k : Int) := by omega
    simp [this]
  rw [e, hlg, hk]
  omega

/-- `distToWin == 0`: the swindle score has the sign of the evaluation and magnitude at most `minFrustrated − 1 = 34` -/
theorem swindle_near (e : Int) (he : e.natAbs < 2^31) :
    (0 ≤ e → 0 ≤ swindleScore e 0 ∧ swindleScore e 0 ≤ 34) ∧ (e < 0 → -34 ≤ swindleScore e 0 ∧ swindleScore e 0 ≤ 0) := by
  have c := swindle_near_core (e.natAbs + 4) (by omega) (by omega)
  simp only [Int.natCast_add, Int.cast_ofNat_Int] at c
  simp only [swindleScore, beq_self_eq_true, if_true, Int.add_assoc, Int.reduceAdd]
  generalize (min (_ : Int) _) = V at c ⊢
  constructor <;> intro h
  · have hp : e ≥ 0 := h
    simp only [hp, decide_true, if_true]; omega
  · have hp : ¬ e ≥ 0 := by omega
    simp only [hp, decide_false]; simp; omega

end Bridge.TB
