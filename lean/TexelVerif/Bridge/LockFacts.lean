import TexelVerif.Conc.LockTable
import TexelVerif.Generated.LockFacts
/-! Property C09, static tie: the protection discipline that `Conc/Access.lean` assigns to the shared locations of the thread
    layer holds at every access site of the CURRENT C++ source.  `Gen.LockFacts.*` is regenerated from the source by
    tools/locktie.py on every run of `./check C09`; each theorem is a `decide` over those finite tables (the quantifier
    "every access site" is the generated list).  What the extractor computes and what stays trusted: notes/C09.md. -/
namespace Bridge.LockFacts
open Conc Conc.LockTie Gen.LockFacts

/-- (i) every access site respects the discipline of its location: `guarded M` — M (of the same object) is held;
    `wguarded M` — every write holds M; `owned` / `setup` / `quiesced` — the site is in one of the functions the table lists. -/
theorem lock_discipline_guarded : badDiscipline groups = [] := by decide +kernel

/-- (iii) every location the model treats as atomic (`Loc.atomic`: regs, ttData; plus `WorkerThread::terminate`) is declared
    `std::atomic<…>` / `RelaxedShared<…>` and has that type at every access site. -/
theorem atomics_are_atomic : badAtomic groups = [] := by decide +kernel

/-- (iv) the table and the source list the same members: every non-const data member of Notifier / Communicator /
    ThreadCommunicator / WorkerThread / EngineMainThread / ThreadPool has a row, every row is a member of the source, every
    access site belongs to a row, every lexically checked row has at least one site, and every location constructor of
    `Conc.Loc` is realised by at least one row. -/
theorem access_table_complete :
    tableGaps groups completeClasses = [] ∧ staleRows groups = [] ∧ uncoveredKinds = [] ∧
    classesWithoutMembers groups completeClasses = [] := by decide +kernel

/-- the kinds of the table cover `Conc.Loc`, with the same atomicity, for every number of threads -/
theorem loc_kinds_cover {n : Nat} (l : Loc n) :
    SKind.ofLoc l ∈ modelKinds ∧
    (l.atomic = true ↔ ∀ r ∈ rows, r.kind = SKind.ofLoc l → r.disc = .atomic) := by
  cases l <;> simp only [Loc.atomic, SKind.ofLoc] <;> decide

/-- every locked access in the model's access lists (`Conc.acc`) is one of six (location kind, mutex) pairs -/
theorem acc_locked_pairs {n : Nat} (r : Fin n) (s : St n) (e : Ev n) :
    ∀ a ∈ acc r s e, ∀ k, a.lock = some k → (SKind.ofLoc a.loc, lockName k) ∈ lockedPairs := by
  cases e <;> simp only [acc, rd, wr, searchReads] <;> (try split) <;> (try split) <;>
    simp [SKind.ofLoc, lockName, lockedPairs]

/-- the mutex that the model's access list names for a location is the mutex the table demands at the C++ sites of every
    member realising that location (so `lock_discipline_guarded` is about the model's lock, not merely about some lock) -/
theorem model_lock_is_table_lock {n : Nat} (r : Fin n) (s : St n) (e : Ev n) (a : Acc n) (k : Conc.Lock n)
    (ha : a ∈ acc r s e) (hk : a.lock = some k) :
    ∀ row ∈ rows, row.kind = SKind.ofLoc a.loc → row.mutex? = none ∨ row.mutex? = some (lockName k) := by
  have h := acc_locked_pairs r s e a ha k hk
  have all : ∀ p ∈ lockedPairs, ∀ row ∈ rows, row.kind = p.1 → row.mutex? = none ∨ row.mutex? = some p.2 := by decide +kernel
  exact all _ h

end Bridge.LockFacts
