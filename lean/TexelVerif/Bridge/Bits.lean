import TexelVerif.Generated.Bits
/-!
# Bridge: `BitUtil::firstBit` / `BitUtil::lastBit` (bitBoard.hpp, the table-driven variant compiled when `USE_CTZ` is
off, i.e. the `plain` build) and `Piece::isWhite / makeWhite / makeBlack`, regenerated from the source

The de-Bruijn tables `trailingZ` / `lastBitTable` are extracted from their initialisers in bitBoard.cpp.  The theorems
are functional correctness for **every** 64-bit mask: `firstBit m` is the index of the lowest set bit, `lastBit m` the
index of the highest one.  Proof: `m & -m` (resp. the or-shift chain) depends only on that index (bit-level lemmas),
and the 64 possible indices are checked by `decide` on the generated definitions.
(`Csp.lowest_spec` / `Csp.highest`-style hypotheses have exactly the shape required here.)
-/
set_option linter.unusedSimpArgs false
namespace Bridge.Bits
open Gen.Bits

/-! ### `BitUtil::firstBit`: isolate the lowest set bit with `m & -m`, multiply, look up -/

/-- `m & -m` isolates the lowest set bit -/
theorem and_neg_eq_twoPow (m : BitVec 64) (i : Nat) (hi : i < 64) (hset : m.getLsbD i = true)
    (hlow : ∀ j, j < i → m.getLsbD j = false) : m &&& -m = BitVec.twoPow 64 i := by
  apply BitVec.eq_of_getLsbD_eq
  intro j hj
  simp only [BitVec.getLsbD_and, BitVec.getLsbD_neg, BitVec.getLsbD_twoPow, hj, hi, decide_true, Bool.true_and]
  rcases Nat.lt_trichotomy j i with h | h | h
  · have : ¬ i = j := by omega
    simp [hlow j h, this]
  · subst h
    have : ¬ ∃ k, k < j ∧ m.getLsbD k = true := by
      rintro ⟨k, hk, hk'⟩; rw [hlow k hk] at hk'; cases hk'
    simp [hset, this]
  · have : ∃ k, k < j ∧ m.getLsbD k = true := ⟨i, h, hset⟩
    have ne : ¬ i = j := by omega
    simp [this, ne]

theorem firstBit_twoPow : ∀ i : Fin 64, firstBit (BitVec.twoPow 64 i.val) = (i.val : Int) := by decide

/-- `BitUtil::firstBit` returns the index of the lowest set bit, for every non-zero 64-bit mask. -/
theorem firstBit_eq (m : BitVec 64) (i : Nat) (hi : i < 64) (hset : m.getLsbD i = true)
    (hlow : ∀ j, j < i → m.getLsbD j = false) : firstBit m = (i : Int) := by
  have e1 := and_neg_eq_twoPow m i hi hset hlow
  have e2 := and_neg_eq_twoPow (BitVec.twoPow 64 i) i hi (by simp [BitVec.getLsbD_twoPow, hi])
    (by intro j hj; simp [BitVec.getLsbD_twoPow]; omega)
  have t := firstBit_twoPow ⟨i, hi⟩
  simp only [firstBit, e1, e2] at t ⊢
  exact t

/-! ### `BitUtil::lastBit`: smear the highest set bit downwards, multiply, look up -/
def Cover (m : BitVec 64) (n j : Nat) : Prop := ∃ k, j ≤ k ∧ k < j + n ∧ m.getLsbD k = true

theorem cover_one (m : BitVec 64) (j : Nat) : m.getLsbD j = true ↔ Cover m 1 j := by
  unfold Cover
  constructor
  · intro h; exact ⟨j, by omega, by omega, h⟩
  · rintro ⟨k, h1, h2, h3⟩
    have : k = j := by omega
    subst this; exact h3

theorem cover_step (m x : BitVec 64) (n : Nat) (hx : ∀ j, x.getLsbD j = true ↔ Cover m n j) :
    ∀ j, (x ||| (x >>> n)).getLsbD j = true ↔ Cover m (n + n) j := by
  intro j
  simp only [BitVec.getLsbD_or, BitVec.getLsbD_ushiftRight, Bool.or_eq_true, hx, Cover]
  constructor
  · rintro (⟨k, h1, h2, h3⟩ | ⟨k, h1, h2, h3⟩)
    · exact ⟨k, h1, by omega, h3⟩
    · exact ⟨k, by omega, by omega, h3⟩
  · rintro ⟨k, h1, h2, h3⟩
    by_cases hk : k < j + n
    · exact Or.inl ⟨k, h1, hk, h3⟩
    · exact Or.inr ⟨k, by omega, by omega, h3⟩

/-- the smearing chain of `lastBit`, as it is spelled in the C++ -/
def smear (m : BitVec 64) : BitVec 64 :=
  let m := m ||| (m >>> 1)
  let m := m ||| (m >>> 2)
  let m := m ||| (m >>> 4)
  let m := m ||| (m >>> 8)
  let m := m ||| (m >>> 16)
  m ||| (m >>> 32)

theorem smear_bits (m : BitVec 64) (j : Nat) : (smear m).getLsbD j = true ↔ Cover m 64 j := by
  have s1 := cover_step m _ 1 (cover_one m)
  have s2 := cover_step m _ 2 s1
  have s3 := cover_step m _ 4 s2
  have s4 := cover_step m _ 8 s3
  have s5 := cover_step m _ 16 s4
  have s6 := cover_step m _ 32 s5
  exact s6 j

theorem lastBit_twoPow : ∀ i : Fin 64, lastBit (BitVec.twoPow 64 i.val) = (i.val : Int) := by decide

theorem cover_top (m : BitVec 64) (h : Nat) (hh : h < 64) (hset : m.getLsbD h = true)
    (hhigh : ∀ j, h < j → m.getLsbD j = false) (j : Nat) : Cover m 64 j ↔ j ≤ h := by
  unfold Cover
  constructor
  · rintro ⟨k, h1, _, h3⟩
    by_cases hk : h < k
    · rw [hhigh k hk] at h3; cases h3
    · omega
  · intro hj
    exact ⟨h, hj, by omega, hset⟩

/-- `BitUtil::lastBit` returns the index of the highest set bit, for every non-zero 64-bit mask. -/
theorem lastBit_eq (m : BitVec 64) (h : Nat) (hh : h < 64) (hset : m.getLsbD h = true)
    (hhigh : ∀ j, h < j → m.getLsbD j = false) : lastBit m = (h : Int) := by
  have e : smear m = smear (BitVec.twoPow 64 h) := by
    apply BitVec.eq_of_getLsbD_eq
    intro j _
    rw [Bool.eq_iff_iff, smear_bits, smear_bits, cover_top m h hh hset hhigh,
      cover_top (BitVec.twoPow 64 h) h hh (by simp [BitVec.getLsbD_twoPow, hh])
        (by intro j hj; simp [BitVec.getLsbD_twoPow]; omega)]
  have t := lastBit_twoPow ⟨h, hh⟩
  have shr_or : ∀ (x y : BitVec 64) (n : Nat), (x >>> n) ||| y = y ||| (x >>> n) := fun x y n => BitVec.or_comm _ _
  have u : ∀ x, lastBit x = BitUtil_lastBitTable.getD ((smear x * 285870213051386505#64) >>> 58).toNat 0 := by
    intro x; simp only [lastBit, smear, shr_or]
  rw [u] at t ⊢
  rw [e]; exact t

/-! ### `Piece` colour arithmetic (enumerators of `Piece::Type` taken from piece.hpp) -/

theorem isWhite_eq (p : Int) : isWhite p = decide (p < 7) := by
  simp [isWhite]

/-- white piece codes are 1..6, black ones 7..12; `makeBlack`/`makeWhite` shift by 6 and are mutually inverse there -/
theorem makeBlack_white (p : Int) (h1 : 1 ≤ p) (h2 : p ≤ 6) : makeBlack p = p + 6 ∧ makeWhite (makeBlack p) = p := by
  simp only [makeBlack, makeWhite]
  constructor <;> (repeat' split) <;> simp_all <;> omega

theorem makeWhite_black (p : Int) (h1 : 7 ≤ p) (h2 : p ≤ 12) : makeWhite p = p - 6 ∧ makeBlack (makeWhite p) = p := by
  simp only [makeBlack, makeWhite]
  constructor <;> (repeat' split) <;> simp_all <;> omega

theorem makeWhite_white (p : Int) (h2 : p ≤ 6) : makeWhite p = p := by
  simp only [makeWhite]; split <;> simp_all <;> omega

theorem makeBlack_black_or_empty (p : Int) (h : p ≤ 0 ∨ 7 ≤ p) : makeBlack p = p := by
  simp only [makeBlack]; split <;> simp_all <;> omega

end Bridge.Bits
