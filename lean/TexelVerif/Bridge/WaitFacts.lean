import TexelVerif.Conc.LockTable
import TexelVerif.Generated.LockFacts
/-! Property C10, static tie: the model's atomic steps "change the wait predicate and notify" / "test the predicate and block"
    assume that a condition variable's predicate is only changed under the mutex its waiter holds (otherwise the wake-up can be
    lost between the waiter's test and its `wait`).  Checked here for EVERY condition variable of the thread layer over the facts
    regenerated from the current C++ source by tools/locktie.py (`./check C10`). -/
namespace Bridge.WaitFacts
open Conc Conc.LockTie Gen.LockFacts

/-- every wait passes a lock whose mutex is a data member and which is held at the call, re-tests its predicate in a loop
    (timed waits excepted) and has a predicate that reads at least one member -/
theorem waits_well_formed : waits ≠ [] ∧ badWaitShape waits = [] := by decide +kernel

/-- (ii) the lost-wake-up condition: every variable read by the predicate of a wait whose waiter holds M is WRITTEN only with M
    held (on the same object) — at every write site of the source, atomic or not (`EngineMainThread::search` is atomic and
    still must obey this). -/
theorem wait_predicates_guarded : badPredicateWrites waits groups = [] := by decide +kernel

/-- every wait is served: some notify of its condition variable follows, in the same function, a write of one of its
    predicate variables made under the waiter's mutex; and no notify of a condition variable is idle (follows no such write) -/
theorem notifies_cover_waits : unservedWaits waits notifies = [] ∧ idleNotifies waits notifies = [] := by decide +kernel

end Bridge.WaitFacts
