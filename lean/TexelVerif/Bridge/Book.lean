import TexelVerif.Generated.Book
/-!
# Bridge: polyglot move unpacking (C18), regenerated from book/polyglot.cpp

Slice of `PolyglotBook::getMove` from `int toFile = move & 7;` up to the construction of the `Square`s: the five
fields of the 16-bit polyglot move word are `to-file = bits 0-2`, `to-row = 3-5`, `from-file = 6-8`, `from-row = 9-11`,
`promotion = 12-14` (as natural-number division/modulo, the form a book model uses).
-/
namespace Bridge.Book
open Gen.Book
theorem unpack_field (m : BitVec 16) (k : Nat) :
    ((BitVec.ofInt 32 ((m.toNat : Int) >>> k)) &&& BitVec.ofInt 32 7).toInt = ((m.toNat / 2^k % 8 : Nat) : Int) := by
  have hm := m.isLt
  have e1 : ((m.toNat : Int) >>> k) = ((m.toNat / 2^k : Nat) : Int) := by
    rw [Int.shiftRight_eq_div_pow]; simp
  have hle : m.toNat / 2^k ≤ m.toNat := Nat.div_le_self _ _
  generalize m.toNat / 2^k = q at *
  rw [e1, BitVec.ofInt_natCast]
  have e2 : (BitVec.ofNat 32 q &&& BitVec.ofInt 32 7).toNat = q % 8 := by
    simp only [BitVec.toNat_and, BitVec.toNat_ofNat]
    have h7 : (BitVec.ofInt 32 7).toNat = 2^3 - 1 := by decide
    rw [h7, Nat.and_two_pow_sub_one_eq_mod, Nat.mod_eq_of_lt (a := q) (by omega)]
  rw [BitVec.toInt_eq_toNat_bmod, e2]
  exact Int.bmod_eq_of_le (by omega) (by omega)

theorem getMove_unpack_eq (m : BitVec 16) :
    getMove_unpack m = (((m.toNat % 8 : Nat) : Int), ((m.toNat / 8 % 8 : Nat) : Int), ((m.toNat / 64 % 8 : Nat) : Int),
                        ((m.toNat / 512 % 8 : Nat) : Int), ((m.toNat / 4096 % 8 : Nat) : Int)) := by
  have h0 := unpack_field m 0
  have h3 := unpack_field m 3
  have h6 := unpack_field m 6
  have h9 := unpack_field m 9
  have h12 := unpack_field m 12
  simp only [Int.shiftRight_zero, Nat.pow_zero, Nat.div_one, Nat.reducePow] at h0 h3 h6 h9 h12
  simp only [getMove_unpack, h0, h3, h6, h9, h12]

end Bridge.Book
