import TexelVerif.Generated.TT
import TexelVerif.TT.Table
import TexelVerif.TT.TableLemmas
import TexelVerif.Util.BitVecLemmas
/-!
# Bridge: transposition-table kernels regenerated from the C++ source ≍ the hand models of `TexelVerif/TT`

`Gen.TT.*` (file `Generated/TT.lean`) is rewritten by `tools/cxx2lean.py` from /repo's current
`transpositionTable.hpp/.cpp` + `constants.hpp` on every run of the check.  Every theorem below states that a
generated kernel computes the same function as the hand model the C08 theorems are about, so a semantic change of a
kernel in the C++ source makes this file fail to compile (no sampling involved).

Only robust automation is used (`unfold`/`simp only` with the definitions, `omega`, `split`, `grind`), so renamings,
`x += 1` vs `x = x + 1`, reordered independent statements etc. do not break the proofs.

The equations hold for all arguments of the *generated* definitions; the generated definitions are faithful to the
C++ only where the `OBLIGATIONS` listed in their doc comments hold (shift amounts in range, no signed overflow):
for the field kernels `0 ≤ first`, `0 ≤ size`, `first + size ≤ 64`; for the score kernels `|score|,|ply| < 2^30`.
-/
set_option linter.unusedSimpArgs false   -- some simp arguments only fire for alternative (equivalent) spellings of the C++
namespace Bridge.TT
open Gen.TT

/-! ### `TTEntry::getBits` / `setBits` -/

theorem getBits_eq (self : TTEntry) (first size : Int) :
    getBits self first size = TT.getBits self.data first.toNat size.toNat := by
  simp only [getBits, TT.getBits, TT.fieldMask, Util.one_shl_sub_one]

theorem setBits_eq (self : TTEntry) (first size : Int) (v : BitVec 32) :
    setBits self first size v = { self with data := TT.setBits self.data first.toNat size.toNat v } := by
  simp only [setBits, TT.setBits, TT.mask, TT.fieldMask, Util.one_shl_sub_one]

/-! ### `SearchConst::isWinScore` / `isLoseScore`, `TTEntry::getScore` / `setScore` -/

theorem isWinScore_eq (s : Int) : isWinScore s = TT.isWinScore s := by
  simp [isWinScore, TT.isWinScore]

theorem isLoseScore_eq (s : Int) : isLoseScore s = TT.isLoseScore s := by
  simp [isLoseScore, TT.isLoseScore]

theorem getScore_eq (self : TTEntry) (ply : Int) : getScore self ply = TT.getScore self.data ply := by
  simp only [getScore, TT.getScore, TT.fromStored, TT.rawScore, getBits_eq, isWinScore_eq, isLoseScore_eq]
  split <;> simp_all

theorem setScore_eq (self : TTEntry) (score ply : Int) :
    setScore self score ply = { self with data := TT.setScore self.data score ply } := by
  simp only [setScore, TT.setScore, TT.toStored, setBits_eq, isWinScore_eq, isLoseScore_eq]
  split <;> simp_all

/-! ### field getters used by `isCutOff` / `betterThan` (translated because the kernels call them) -/

/-- a field of at most 31 bits read through `getBits` is the same number as C `int` and as `Nat` -/
theorem field_toInt (d : BitVec 64) (f s : Nat) (hs : s < 32) :
    (TT.getBits d f s).toInt = ((TT.getBits d f s).toNat : Int) := by
  have hlt : (TT.getBits d f s).toNat < 2^s := by
    simp only [TT.getBits, TT.fieldMask, BitVec.toNat_setWidth, BitVec.toNat_and, BitVec.toNat_ofNat]
    have h1 : (2^s - 1) % 2^64 = 2^s - 1 := Nat.mod_eq_of_lt (by
      have : 2^s < 2^64 := Nat.pow_lt_pow_right (by omega) (by omega)
      omega)
    rw [h1]
    have h2 : (d >>> f).toNat &&& (2^s - 1) ≤ 2^s - 1 := Nat.and_le_right
    have h0 : 0 < 2^s := Nat.two_pow_pos s
    have : ((d >>> f).toNat &&& (2^s - 1)) % 2^32 ≤ (d >>> f).toNat &&& (2^s - 1) := Nat.mod_le _ _
    omega
  have h31 : 2^s ≤ 2^31 := Nat.pow_le_pow_right (by omega) (by omega)
  simp only [BitVec.toInt_eq_toNat_bmod]
  exact Int.bmod_eq_of_le (by omega) (by omega)

theorem getDepth_eq (self : TTEntry) : getDepth self = (TT.getDepth self.data : Int) := by
  simp [getDepth, TT.getDepth, getBits_eq, field_toInt]

theorem getType_eq (self : TTEntry) : getType self = (TT.getType self.data : Int) := by
  simp [getType, TT.getType, getBits_eq, field_toInt]

theorem getGeneration_eq (self : TTEntry) : getGeneration self = (TT.getGeneration self.data : Int) := by
  simp [getGeneration, TT.getGeneration, getBits_eq, field_toInt]

/-! ### `TTEntry::isCutOff`, `TTEntry::betterThan` -/

theorem isCutOff_eq (self : TTEntry) (alpha beta ply depth : Int) :
    isCutOff self alpha beta ply depth = TT.isCutOff self.data alpha beta ply depth := by
  simp only [isCutOff, TT.isCutOff, getScore_eq, getDepth_eq, getType_eq, isWinScore_eq, isLoseScore_eq,
    TT.T_EXACT, TT.T_GE, TT.T_LE]
  rw [Bool.eq_iff_iff]
  grind

theorem betterThan_eq (self other : TTEntry) (currGen : Nat) :
    betterThan self other currGen = TT.betterThan self.data other.data currGen := by
  simp only [betterThan, TT.betterThan, getDepth_eq, getType_eq, getGeneration_eq, TT.T_EXACT]
  rw [Bool.eq_iff_iff]
  grind

/-! ### `TranspositionTable::getIndex` -/

/-- Under the invariant `setUsedSize` establishes (`top < 256`, `top * 2^shift < 2^64`) the C++ 64-bit computation
    never wraps and equals the hand model on naturals. -/
theorem getIndex_eq (self : TranspositionTable) (key : BitVec 64) (t s : Nat)
    (ht : self.usedSizeTopBits = t) (hs : self.usedSizeShift = s) (htop : t < 256) (hfit : t * 2 ^ s < 2^64) :
    (getIndex self key).toNat = TT.getIndex ⟨t, s, self.usedSizeMask.toNat⟩ key.toNat := by
  have hk : key.toNat >>> 48 < 2^16 := by
    have := key.isLt
    rw [Nat.shiftRight_eq_div_pow]; omega
  have hprod : (key.toNat >>> 48) * t < 2^24 := by
    calc (key.toNat >>> 48) * t < 2^16 * 256 := Nat.mul_lt_mul'' hk htop
      _ = 2^24 := by decide
  have hr : ((key.toNat >>> 48) * t) >>> 16 ≤ t := by
    rw [Nat.shiftRight_eq_div_pow]
    apply Nat.div_le_of_le_mul
    exact Nat.mul_le_mul_right t (Nat.le_of_lt hk)
  have e2 : ((t : Int) % ((2^64 : Nat) : Int)).toNat = t := by
    have : ((2^64 : Nat) : Int) = 18446744073709551616 := by simp
    rw [this]; omega
  have e3 : (key.toNat >>> 48 * t) % 2^64 = key.toNat >>> 48 * t := Nat.mod_eq_of_lt (by omega)
  have e4 : ((key.toNat >>> 48 * t) >>> 16 <<< s) % 2^64 = (key.toNat >>> 48 * t) >>> 16 <<< s := by
    apply Nat.mod_eq_of_lt
    rw [Nat.shiftLeft_eq]
    calc _ ≤ t * 2^s := Nat.mul_le_mul_right _ hr
      _ < 2^64 := hfit
  simp only [getIndex, TT.getIndex, ht, hs, BitVec.toNat_or, BitVec.toNat_and, BitVec.toNat_shiftLeft, BitVec.toNat_ushiftRight,
    BitVec.toNat_mul, BitVec.toNat_ofInt, Int.toNat_natCast, Int.reduceSub, Int.reduceToNat, e2, e3, e4]

/-! ### `TranspositionTable::setUsedSize` (while loop) -/

/-- the record `setUsedSize` leaves behind, in terms of the hand model's loop result `(top, shift)` -/
def usedOf (self : TranspositionTable) (r : Nat × Nat) : TranspositionTable :=
  { self with usedSizeShift := (r.2 : Int), usedSizeTopBits := (r.1 : Int), usedSizeMask := BitVec.ofNat 64 (TT.lowMask r.2) }

theorem mask_eq (s : Nat) : ((1#64 <<< s) - 1#64) &&& ~~~3#64 = BitVec.ofNat 64 (TT.lowMask s) := by
  rw [Util.one_shl_sub_one]
  apply BitVec.eq_of_toNat_eq
  simp only [TT.lowMask, BitVec.toNat_and, BitVec.toNat_ofNat, BitVec.toNat_not]
  have e : 2 ^ 64 - 1 - 3 % 2 ^ 64 = (2^64 - 1 - 3) % 2^64 := by decide
  rw [e, ← Nat.and_mod_two_pow]

/-- the generated loop helper with `fuel+1` units of fuel computes the hand model's `topBitsLoop fuel` -/
theorem setUsedSize_loop (f0 : Nat) : ∀ (fuel : Nat) (self : TranspositionTable) (tb : BitVec 64) (sh : Nat),
    self.usedSizeShift = sh → tb.toNat < 2^(fuel+8) →
    setUsedSize.loop1 f0 (fuel+1) self tb = some (usedOf self (TT.topBitsLoop fuel tb.toNat sh)) := by
  intro fuel
  induction fuel with
  | zero =>
    intro self tb sh hs hlt
    have h256 : ¬ (256 ≤ tb.toNat) := by omega
    have hm := mask_eq sh
    simp [setUsedSize.loop1, TT.topBitsLoop, usedOf, BitVec.le_def, h256, hs] at hm ⊢
    exact ⟨hm, Int.bmod_eq_of_le (by omega) (by omega)⟩
  | succ n ih =>
    intro self tb sh hs hlt
    have hpow : 2^(n+1+8) = 2 * 2^(n+8) := by rw [show n+1+8 = (n+8)+1 by omega, Nat.pow_succ]; omega
    unfold setUsedSize.loop1 TT.topBitsLoop
    by_cases h : 256 ≤ tb.toNat
    · simp only [ge_iff_le, BitVec.le_def, BitVec.toNat_ofNat, Nat.reducePow, Nat.reduceMod, h, decide_true, if_true]
      rw [ih _ _ (sh+1) (by simp [hs]) (by simp [Nat.shiftRight_eq_div_pow]; omega)]
      simp [usedOf, Nat.shiftRight_eq_div_pow]
    · have hm := mask_eq sh
      simp [usedOf, BitVec.le_def, h, hs] at hm ⊢
      exact ⟨hm, Int.bmod_eq_of_le (by omega) (by omega)⟩

/-- `setUsedSize` terminates (65 units of fuel suffice for every 64-bit size) and leaves exactly the hand model's
    `Used` record; `usedSize` is the argument, every other field is untouched. -/
theorem setUsedSize_eq (self : TranspositionTable) (s : BitVec 64) :
    setUsedSize 65 self s =
      some { self with usedSize := s, usedSizeShift := ((TT.setUsedSize s.toNat).shift : Int),
                       usedSizeTopBits := ((TT.setUsedSize s.toNat).top : Int),
                       usedSizeMask := BitVec.ofNat 64 (TT.setUsedSize s.toNat).mask } := by
  have hlt : s.toNat < 2^(64+8) := by have := s.isLt; omega
  have := setUsedSize_loop 65 64 { self with usedSize := s, usedSizeShift := 0 } s 0 rfl hlt
  simp only [setUsedSize, this, usedOf, TT.setUsedSize]

/-- Composition: the index computed by the regenerated `getIndex` on the state left by the regenerated
    `setUsedSize n` is the hand model's index, hence (Props.C08.index_ok) 4-aligned and in range for `n ≥ 512`. -/
theorem getIndex_after_setUsedSize (self self' : TranspositionTable) (n key : BitVec 64) (hn : 512 ≤ n.toNat)
    (h : setUsedSize 65 self n = some self') :
    (getIndex self' key).toNat = TT.getIndex (TT.setUsedSize n.toNat) key.toNat ∧
    (getIndex self' key).toNat % 4 = 0 ∧ (getIndex self' key).toNat + 3 < n.toNat := by
  rw [setUsedSize_eq] at h
  injection h with h
  subst h
  have hmax : n.toNat < 2^72 := by have := n.isLt; omega
  have ls := TT.loop_spec 64 n.toNat 0 (by simpa using hmax)
  obtain ⟨h1, _, h3, _, _, _⟩ := ls
  simp only [Nat.sub_zero] at h3
  have hm : TT.lowMask (TT.topBitsLoop 64 n.toNat 0).2 < 2^64 := by
    unfold TT.lowMask
    exact Nat.lt_of_le_of_lt Nat.and_le_right (by decide)
  have e := getIndex_eq
    { self with usedSize := n, usedSizeShift := ((TT.setUsedSize n.toNat).shift : Int),
                usedSizeTopBits := ((TT.setUsedSize n.toNat).top : Int),
                usedSizeMask := BitVec.ofNat 64 (TT.setUsedSize n.toNat).mask } key
    (TT.setUsedSize n.toNat).top (TT.setUsedSize n.toNat).shift rfl rfl
    (by simpa [TT.setUsedSize] using h1)
    (by have := n.isLt; simp only [TT.setUsedSize]; omega)
  have e' : (BitVec.ofNat 64 (TT.setUsedSize n.toNat).mask).toNat = (TT.setUsedSize n.toNat).mask := by
    simp only [TT.setUsedSize, BitVec.toNat_ofNat]; exact Nat.mod_eq_of_lt hm
  simp only [e'] at e
  have ok := TT.index_ok n.toNat key.toNat hn hmax key.isLt
  exact ⟨e, by rw [e]; exact ok.1, by rw [e]; exact ok.2⟩

/-- `TranspositionTable::updateTB` hosts an on-demand tablebase only if at least 2 MiB of hash table remain: the size guard
    regenerated from the source (`ttSize < tbSize + 2*1024*1024` ⇒ no table) leaves, when it lets the generation through,
    `(ttSize − tbSize) / 16 ≥ 131072` entries for ordinary hash entries — in particular more than the 512 entries that
    `index_ok` needs, so hash entries and table bytes never share a bucket. -/
theorem updateTB_leaves_room (ttSize : BitVec 64)
    (h : updateTB_tooSmall ttSize updateTB_tbSize = false) :
    updateTB_tbSize = 5242880 ∧ 5242880 + 2097152 ≤ ttSize.toNat ∧ 131072 ≤ (ttSize.toNat - 5242880) / 16 := by
  have ht : updateTB_tbSize = 5242880 := by decide
  refine ⟨ht, ?_⟩
  rw [ht] at h
  simp only [updateTB_tooSmall, decide_eq_false_iff_not, BitVec.not_lt] at h
  have h2 : (BitVec.ofInt 64 ((5242880 : Int) + (((2 : Int) * (1024 : Int)) * (1024 : Int)))).toNat = 7340032 := by decide
  have h3 : 7340032 ≤ ttSize.toNat := by
    have := BitVec.le_def.mp h
    omega
  exact ⟨by omega, by omega⟩

end Bridge.TT
