import TexelVerif.Generated.SearchGuards
import TexelVerif.Score.Claims
/-!
# Bridge: the guards and score clamps of `Search::negaScout` / `Search::quiesce`, regenerated from search.cpp

`Generated/SearchGuards.lean` holds, for every pruning / override / terminal site of the two search functions, the
*condition expression* of the `if` that guards it and (where it is straight-line code) the value and bound type it
returns, as Lean definitions over the free variables of that code (tools/kernels.json, entries with `"site"`).
This file proves, for each site, that the regenerated guard implies the side condition under which the matching rule
of the claim calculus (`Score/Claims.lean`) is sound.  The data flow *between* sites (that `normalBound` is computed
from the α, β of the node, that the value returned by `quiesce` outside check is ≥ its stand-pat value, which moves
reach the loop body) stays by reading (DESIGN.md Appendix A).

Hypotheses that are not guards of the code are explicit: `¬ isWin eval`, `¬ isLose eval` (static evaluations are not
mate scores) and `0 ≤ margin`.
-/
namespace Bridge.SearchGuards
open Gen.SearchGuards

theorem isWinScore_iff (s : Int) : isWinScore s = true ↔ Cl.isWin s := by
  simp [isWinScore, Cl.isWin, Cl.MATE0]

theorem isLoseScore_iff (s : Int) : isLoseScore s = true ↔ Cl.isLose s := by
  simp [isLoseScore, Cl.isLose, Cl.MATE0]

/-- `TType::T_EXACT / T_GE / T_LE` as bounds of the calculus -/
def boundOf (t : Int) : Option Cl.Bound :=
  if t = 1 then some .exact else if t = 2 then some .lower else if t = 3 then some .upper else none

theorem boundOf_exact : boundOf 1 = some .exact := by decide
theorem boundOf_lower : boundOf 2 = some .lower := by decide
theorem boundOf_upper : boundOf 3 = some .upper := by decide

/-! ### mate-distance pruning, terminal scores -/

theorem mdp_beta_le (beta ply : Int) :
    mdpBeta (beta := beta) (ply := ply) ≤ beta ∧ mdpBeta (beta := beta) (ply := ply) ≤ Cl.MATE0 - ply - 1 := by
  simp only [mdpBeta, Cl.MATE0]; omega

/-- the mate-distance cut returns α only when α is at least the best score any mate found from this ply could have:
    α is then a correct upper bound and, being a win score returned below the window, claims nothing -/
theorem mdp_sound (alpha beta : Int) (ply : Nat) (hab : alpha < beta)
    (h : mdpCut (alpha := alpha) (beta := mdpBeta (beta := beta) (ply := ply)) = true) :
    mdpRet (alpha := alpha) ≥ Cl.MATE0 - ply - 1 ∧
    ∀ s : Int, ∀ k : Nat, 1 ≤ k → (k : Int) = Cl.MATE0 - s - ply - 1 → s < mdpRet (alpha := alpha) := by
  have hc : alpha ≥ min beta (Cl.MATE0 - ply - 1) := by
    show alpha ≥ min beta ((32000 : Int) - ply - 1)
    simpa [mdpCut, mdpBeta] using h
  have := Cl.mdp_upper_correct alpha beta ply hab hc
  exact ⟨this.2, this.1⟩

theorem mdp_rule {P} (G : Cl.Game P) (p : P) (alpha beta : Int) (ply : Nat) (hply : ply < 1000) (hab : alpha < beta)
    (h : mdpCut (alpha := alpha) (beta := mdpBeta (beta := beta) (ply := ply)) = true) :
    Cl.Sound G p ply (mdpRet (alpha := alpha)) .upper ∧ Cl.NoClaim (-(mdpRet (alpha := alpha))) .lower :=
  Cl.sound_mdp G p ply _ (mdp_sound alpha beta ply hab h).1 hply

/-- the score of a node without legal moves that is in check, as the calculus' terminal rule wants it -/
theorem mated_score (ply : Int) : illegalScore (ply := ply) = -(Cl.MATE0 - (ply + 1)) := by simp [illegalScore, Cl.MATE0]

theorem bestScoreInit_eq (s : Int) : bestScoreInit (illegalScore := s) = s := rfl

theorem draw50_mated_ret (ply : Int) :
    (draw50MatedRet (ply := ply)).1 = -(Cl.MATE0 - (ply + 1)) ∧ boundOf (draw50MatedRet (ply := ply)).2 = some .exact := by
  simp [draw50MatedRet, Cl.MATE0, boundOf]

theorem mated_rule {P} (G : Cl.Game P) (p : P) (ply : Nat) (b : Cl.Bound) (hm : Cl.mated G p = true) (hply : ply < 1000) :
    Cl.Sound G p ply (illegalScore (ply := ply)) b ∧ Cl.Sound G p ply (draw50MatedRet (ply := ply)).1 b := by
  rw [mated_score, (draw50_mated_ret ply).1]
  exact ⟨Cl.sound_mated_any G p ply b hm hply, Cl.sound_mated_any G p ply b hm hply⟩

/-- stalemate: only reached without legal moves and outside check; the score 0 claims nothing.  (Inside a singular
    search the site returns α as an upper bound; singular results never leave the node.) -/
theorem stale_sound (inCheck haveLegalMoves : Bool) (alpha : Int) (h : staleCond (inCheck := inCheck) (haveLegalMoves := haveLegalMoves) = true) :
    haveLegalMoves = false ∧ inCheck = false ∧ staleRet (alpha := alpha) (singularSearch := false) = (0, 1) ∧ staleRet (alpha := alpha) (singularSearch := true) = (alpha, 3) := by
  cases inCheck <;> cases haveLegalMoves <;> simp_all [staleCond, staleRet]

theorem stale_rule {P} (G : Cl.Game P) (p : P) (ply : Nat) (alpha : Int) :
    boundOf (staleRet (alpha := alpha) (singularSearch := false)).2 = some .exact ∧ Cl.Sound G p ply (staleRet (alpha := alpha) (singularSearch := false)).1 .exact := by
  refine ⟨by simp [staleRet, boundOf], ?_⟩
  exact Cl.sound_noClaim G p ply _ _ (Cl.noClaim_normal _ _ (by simp [staleRet, Cl.isWin, Cl.MATE0]) (by simp [staleRet, Cl.isLose, Cl.MATE0]))

/-! ### `normalBound`, razoring, reverse futility -/

theorem normalBound_iff (alpha beta : Int) : normalBound (alpha := alpha) (beta := beta) = true ↔ ¬ Cl.isLose alpha ∧ ¬ Cl.isWin beta := by
  rw [← isLoseScore_iff, ← isWinScore_iff]
  cases h1 : isLoseScore alpha <;> cases h2 : isWinScore beta <;> simp [normalBound, h1, h2]

theorem razor_guard_sound (alpha beta depth : Int) (inCheck singularSearch nb : Bool)
    (h : razorCond (alpha := alpha) (beta := beta) (depth := depth) (inCheck := inCheck) (singularSearch := singularSearch) (normalBound := nb) = true) :
    nb = true ∧ inCheck = false ∧ singularSearch = false ∧ beta = alpha + 1 := by
  cases nb <;> cases inCheck <;> cases singularSearch <;> simp_all [razorCond]

/-- razoring returns the quiescence score as an upper bound -/
theorem razor_ret (score : Int) : (razorRet (score := score)).1 = score ∧ boundOf (razorRet (score := score)).2 = some .upper := by
  simp [razorRet, boundOf]

/-- …which claims nothing provided it is not a lose score (outside check `quiesce` returns at least its stand-pat
    value; `inCheck = false` is part of the guard) -/
theorem razor_rule {P} (G : Cl.Game P) (p : P) (ply : Nat) (score : Int) (hs : ¬ Cl.isLose score) :
    ∃ b, boundOf (razorRet (score := score)).2 = some b ∧ Cl.Sound G p ply (razorRet (score := score)).1 b :=
  ⟨.upper, (razor_ret score).2, by rw [(razor_ret score).1]; exact Cl.sound_razor G p ply score hs⟩

theorem revfut_guard_sound (depth : Int) (inCheck singularSearch nb : Bool) (h : revFutCond (depth := depth) (inCheck := inCheck) (singularSearch := singularSearch) (normalBound := nb) = true) :
    nb = true ∧ inCheck = false ∧ singularSearch = false := by
  cases nb <;> cases inCheck <;> cases singularSearch <;> simp_all [revFutCond]

theorem revfut_ret_not_win (evalScore margin : Int) (he : ¬ Cl.isWin evalScore) (hm : 0 ≤ margin) :
    ¬ Cl.isWin (revFutRet (evalScore := evalScore) (margin := margin)).1 ∧ boundOf (revFutRet (evalScore := evalScore) (margin := margin)).2 = some .lower := by
  simp only [revFutRet, boundOf, Cl.isWin, Cl.MATE0] at *
  exact ⟨by omega, boundOf_lower⟩

theorem revfut_rule {P} (G : Cl.Game P) (p : P) (ply : Nat) (evalScore margin : Int) (he : ¬ Cl.isWin evalScore) (hm : 0 ≤ margin) :
    ∃ b, boundOf (revFutRet (evalScore := evalScore) (margin := margin)).2 = some b ∧ Cl.Sound G p ply (revFutRet (evalScore := evalScore) (margin := margin)).1 b :=
  ⟨.lower, (revfut_ret_not_win evalScore margin he hm).2, Cl.sound_revfut G p ply _ (revfut_ret_not_win evalScore margin he hm).1⟩

/-! ### null move -/

/-- the null-move search is entered only when β is not a win score (and outside check, in a zero window) -/
theorem null_entry_sound (alpha beta depth : Int) (inCheck allowNull singularSearch : Bool)
    (h : nullEntryCond (alpha := alpha) (beta := beta) (depth := depth) (inCheck := inCheck) (sti_allowNullMove := allowNull) (singularSearch := singularSearch) = true) :
    ¬ Cl.isWin beta ∧ inCheck = false ∧ allowNull = true ∧ singularSearch = false ∧ beta = alpha + 1 := by
  rw [← isWinScore_iff]
  simp only [nullEntryCond] at h
  generalize isWinScore beta = w at h ⊢
  cases inCheck <;> cases allowNull <;> cases singularSearch <;> cases w <;> simp_all

/-- what the null-move site returns is the calculus' clamp, as a lower bound -/
theorem nullRet_eq_clamp (beta score : Int) : nullRet (beta := beta) (score := score) = (Cl.nullClamp score beta, 2) := by
  simp only [nullRet, Cl.nullClamp, isWinScore, Cl.MATE0]
  by_cases h : score > 16000 <;> simp [h]

/-- **the returned null-move score is never a win score** (given the entry guard) -/
theorem null_return_not_win (beta score : Int) (hb : ¬ Cl.isWin beta) : ¬ Cl.isWin (nullRet (beta := beta) (score := score)).1 := by
  rw [nullRet_eq_clamp]; exact Cl.nullClamp_not_win score beta hb

theorem null_rule {P} (G : Cl.Game P) (p : P) (ply : Nat) (alpha beta depth score : Int) (inCheck allowNull singularSearch : Bool)
    (h : nullEntryCond (alpha := alpha) (beta := beta) (depth := depth) (inCheck := inCheck) (sti_allowNullMove := allowNull) (singularSearch := singularSearch) = true) :
    ∃ b, boundOf (nullRet (beta := beta) (score := score)).2 = some b ∧ Cl.Sound G p ply (nullRet (beta := beta) (score := score)).1 b := by
  refine ⟨.lower, by rw [nullRet_eq_clamp]; exact boundOf_lower, ?_⟩
  rw [nullRet_eq_clamp]
  exact Cl.sound_null G p ply score beta (null_entry_sound alpha beta depth inCheck allowNull singularSearch h).1

/-- (why dropping `!isWinScore(beta)` alone changes nothing: the static-evaluation veto already excludes win β) -/
theorem null_beta_bounded_by_eval (beta evalScore : Int) (h : nullEvalVeto (beta := beta) (evalScore := evalScore) = false) (he : ¬ Cl.isWin evalScore) :
    ¬ Cl.isWin beta := by
  simp only [nullEvalVeto, decide_eq_false_iff_not, Cl.isWin, Cl.MATE0] at *; omega

/-! ### futility and late-move pruning inside the move loop -/

theorem fut_guard_sound (depth : Int) (inCheck singularSearch nb : Bool) (h : futCond (depth := depth) (inCheck := inCheck) (singularSearch := singularSearch) (normalBound := nb) = true) :
    nb = true ∧ inCheck = false ∧ singularSearch = false := by
  cases nb <;> cases inCheck <;> cases singularSearch <;> simp_all [futCond]

theorem fut_score_not_lose (evalScore fs margin : Int) (he : ¬ Cl.isLose evalScore) (hm : 0 ≤ margin) :
    ¬ Cl.isLose (futScore (evalScore := evalScore) (futilityScore := fs) (margin := margin)) := by
  simp only [futScore, Cl.isLose, Cl.MATE0] at *; omega

theorem futMoveScore_eq (fs score : Int) : futMoveScore (futilityScore := fs) (score := score) = fs := rfl

theorem futSelect_spec (fp df : Bool) : futSelect (futilityPrune := fp) (doFutility := df) = (fp || df) := by cases fp <;> cases df <;> rfl

/-- moves are pruned (LMP or futility) only in pass 0 and only after a legal move has been searched: a node that
    reaches the end of the loop with `haveLegalMoves = false` really has no legal move -/
theorem prune_gate_sound (haveLegalMoves : Bool) (pass : Int) (mayReduce givesCheck ppp : Bool)
    (h : pruneGate (haveLegalMoves := haveLegalMoves) (pass := pass) (mayReduce := mayReduce) (givesCheck := givesCheck) (opq_passedPawnPush := ppp) = true) : haveLegalMoves = true ∧ pass = 0 ∧ givesCheck = false := by
  cases haveLegalMoves <;> cases givesCheck <;> cases mayReduce <;> simp_all [pruneGate]

/-- **late-move pruning skips a move only while `bestScore` is not a lose score** -/
theorem lmp_guard_sound (nb : Bool) (limit bestScore mi : Int) (h : lmpCond (normalBound := nb) (lmpMoveCountLimit := limit) (bestScore := bestScore) (mi := mi) = true) :
    nb = true ∧ ¬ Cl.isLose bestScore := by
  rw [← isLoseScore_iff]
  simp only [lmpCond] at h
  generalize isLoseScore bestScore = w at h ⊢
  cases nb <;> cases w <;> simp_all

/-- the same with `normalBound` unfolded to the α, β it was computed from -/
theorem lmp_guard_sound_unfolded (alpha beta limit bestScore mi : Int) (h : lmpCond (normalBound := normalBound (alpha := alpha) (beta := beta)) (lmpMoveCountLimit := limit) (bestScore := bestScore) (mi := mi) = true) :
    ¬ Cl.isLose bestScore ∧ ¬ Cl.isLose alpha ∧ ¬ Cl.isWin beta := by
  have := lmp_guard_sound _ _ _ _ h
  exact ⟨this.2, ((normalBound_iff alpha beta).1 this.1).1, ((normalBound_iff alpha beta).1 this.1).2⟩

/-- the events of the calculus' move loop are guarded whenever the code's conditions hold -/
theorem lmp_event_guarded (nb : Bool) (limit bestScore mi : Int) (h : lmpCond (normalBound := nb) (lmpMoveCountLimit := limit) (bestScore := bestScore) (mi := mi) = true) :
    Cl.MoveEv.Guarded bestScore .lmp := (lmp_guard_sound nb limit bestScore mi h).2

theorem fut_event_guarded (bestScore evalScore fs margin score : Int) (he : ¬ Cl.isLose evalScore) (hm : 0 ≤ margin) :
    Cl.MoveEv.Guarded bestScore (.fut (futMoveScore (futilityScore := futScore (evalScore := evalScore) (futilityScore := fs) (margin := margin)) (score := score))) :=
  fut_score_not_lose evalScore fs margin he hm

theorem bestScoreStep_eq (bestScore score : Int) : bestScoreStep (bestScore := bestScore) (score := score) = Cl.MoveEv.step bestScore (.searched score) := rfl

theorem haveLegalStep_spec (illegal : Int) (hl : Bool) (score : Int) : haveLegalStep (illegalScore := illegal) (haveLegalMoves := hl) (score := score) = (hl || score != illegal) := by
  simp only [haveLegalStep]; cases hl <;> by_cases h : score = illegal <;> simp [h]

/-- the move loop of a node whose pruning decisions all passed the regenerated guards: a final lose score means that
    every move was searched (so the all-moves rule applies) -/
theorem loop_rule (best : Int) (es : List Cl.MoveEv) (hg : Cl.GuardedRun best es) (hl : Cl.isLose (Cl.runLoop best es)) :
    ∀ e ∈ es, ∃ s, e = .searched s ∧ s ≤ Cl.runLoop best es := Cl.guarded_lose_all_searched best es hg hl

/-! ### singular extension -/

/-- with a normal window the singular search is only started from a hash score that is not a mate score, and never
    from an upper-bound entry -/
theorem singular_guard (ply depth entDepth : Int) (entScore : Int → Int) (entType : Int) (singularSearch nb hms : Bool)
    (ext : Int) (legal : Bool) (h : singularCond (ply := ply) (depth := depth) (ent_getDepth := entDepth) (ent_getScore := entScore) (ent_getType := entType) (singularSearch := singularSearch) (normalBound := nb) (hashMoveSelected := hms) (opq_getMoveExtend := ext) (opq_isLegal := legal) = true) :
    entType ≠ 3 ∧ singularSearch = false ∧ (nb = true → ¬ Cl.isWin (entScore ply) ∧ ¬ Cl.isLose (entScore ply)) := by
  simp only [singularCond, Bool.and_eq_true, Bool.or_eq_true, Bool.not_eq_true', bne_iff_ne, ne_eq, decide_eq_true_eq] at h
  refine ⟨h.1.1.1.1.1.2, h.1.1.1.1.1.1.2, fun hnb => ?_⟩
  have hw : isWinScore ((entScore ply).natAbs : Int) = false := by
    rcases h.1.1.1.2 with h' | h'
    · exact h'
    · rw [hnb] at h'; cases h'
  have hw' : ¬ ((entScore ply).natAbs : Int) > 16000 := by simpa [isWinScore] using hw
  simp only [Cl.isWin, Cl.isLose, Cl.MATE0]
  rcases Int.natAbs_eq (entScore ply) with h1 | h1 <;> omega

/-! ### hash-score overrides after the move loop -/

/-- fail high, but the table holds a lose score below it as an exact value or upper bound: the table's claim is returned
    (as an upper bound) instead -/
theorem fail_high_override_spec (ply : Int) (entScore : Int → Int) (entType score tType : Int) :
    (failHighOverrideCond (ply := ply) (ent_getScore := entScore) (ent_getType := entType) (score := score) = true →
        failHighOverride (ply := ply) (ent_getScore := entScore) (ent_getType := entType) (score := score) (tType := tType) = (entScore ply, 3) ∧ Cl.isLose (entScore ply) ∧ (entType = 1 ∨ entType = 3)) ∧
    (failHighOverrideCond (ply := ply) (ent_getScore := entScore) (ent_getType := entType) (score := score) = false → failHighOverride (ply := ply) (ent_getScore := entScore) (ent_getType := entType) (score := score) (tType := tType) = (score, 2)) := by
  constructor
  · intro h
    have h' := h
    simp only [failHighOverrideCond, Bool.and_eq_true, Bool.or_eq_true, beq_iff_eq, decide_eq_true_eq] at h'
    refine ⟨?_, (isLoseScore_iff _).1 h'.2, h'.1.1⟩
    simp only [failHighOverride]; simp only [failHighOverrideCond] at h; rw [if_pos h]
  · intro h
    simp only [failHighOverride]; simp only [failHighOverrideCond] at h; rw [if_neg (by simp [h])]

theorem fail_high_override_rule {P} (G : Cl.Game P) (p : P) (ply : Nat) (entScore : Int → Int) (entType score tType : Int)
    (hent : ∀ b, boundOf entType = some b → Cl.Sound G p ply (entScore ply) b)
    (hsc : Cl.Sound G p ply score .lower) :
    ∃ b, boundOf (failHighOverride (ply := ply) (ent_getScore := entScore) (ent_getType := entType) (score := score) (tType := tType)).2 = some b ∧
         Cl.Sound G p ply (failHighOverride (ply := ply) (ent_getScore := entScore) (ent_getType := entType) (score := score) (tType := tType)).1 b := by
  have sp := fail_high_override_spec ply entScore entType score tType
  cases hc : failHighOverrideCond (ply := ply) (ent_getScore := entScore) (ent_getType := entType) (score := score)
  · rw [sp.2 hc]; exact ⟨.lower, boundOf_lower, hsc⟩
  · obtain ⟨he, hl, ht⟩ := sp.1 hc
    rw [he]
    refine ⟨.upper, boundOf_upper, fun _ hb => absurd rfl hb, fun hl' _ => ?_⟩
    rcases ht with ht | ht
    · exact (hent .exact (by rw [ht]; exact boundOf_exact)).2 hl' (by decide)
    · exact (hent .upper (by rw [ht]; exact boundOf_upper)).2 hl' (by decide)

/-- fail low, but the table holds a win score above α as an exact value or lower bound: returned as a lower bound -/
theorem fail_low_override_spec (alpha ply : Int) (entScore : Int → Int) (entType bestScore tType : Int) :
    (failLowOverrideCond (alpha := alpha) (ply := ply) (ent_getScore := entScore) (ent_getType := entType) = true →
        failLowOverride (alpha := alpha) (ply := ply) (ent_getScore := entScore) (ent_getType := entType) (bestScore := bestScore) (tType := tType) = (entScore ply, 2) ∧ Cl.isWin (entScore ply) ∧ (entType = 1 ∨ entType = 2)) ∧
    (failLowOverrideCond (alpha := alpha) (ply := ply) (ent_getScore := entScore) (ent_getType := entType) = false → failLowOverride (alpha := alpha) (ply := ply) (ent_getScore := entScore) (ent_getType := entType) (bestScore := bestScore) (tType := tType) = (bestScore, 3)) := by
  constructor
  · intro h
    have h' := h
    simp only [failLowOverrideCond, Bool.and_eq_true, Bool.or_eq_true, beq_iff_eq, decide_eq_true_eq] at h'
    refine ⟨?_, (isWinScore_iff _).1 h'.2, h'.1.1⟩
    simp only [failLowOverride]; simp only [failLowOverrideCond] at h; rw [if_pos h]
  · intro h
    simp only [failLowOverride]; simp only [failLowOverrideCond] at h; rw [if_neg (by simp [h])]

theorem fail_low_override_rule {P} (G : Cl.Game P) (p : P) (ply : Nat) (alpha : Int) (entScore : Int → Int) (entType bestScore tType : Int)
    (hent : ∀ b, boundOf entType = some b → Cl.Sound G p ply (entScore ply) b)
    (hsc : Cl.Sound G p ply bestScore .upper) :
    ∃ b, boundOf (failLowOverride (alpha := alpha) (ply := ply) (ent_getScore := entScore) (ent_getType := entType) (bestScore := bestScore) (tType := tType)).2 = some b ∧
         Cl.Sound G p ply (failLowOverride (alpha := alpha) (ply := ply) (ent_getScore := entScore) (ent_getType := entType) (bestScore := bestScore) (tType := tType)).1 b := by
  have sp := fail_low_override_spec alpha ply entScore entType bestScore tType
  cases hc : failLowOverrideCond (alpha := alpha) (ply := ply) (ent_getScore := entScore) (ent_getType := entType)
  · rw [sp.2 hc]; exact ⟨.upper, boundOf_upper, hsc⟩
  · obtain ⟨he, hw, ht⟩ := sp.1 hc
    rw [he]
    refine ⟨.lower, boundOf_lower, fun hw' _ => ?_, fun _ hb => absurd rfl hb⟩
    rcases ht with ht | ht
    · exact (hent .exact (by rw [ht]; exact boundOf_exact)).1 hw' (by decide)
    · exact (hent .lower (by rw [ht]; exact boundOf_lower)).1 hw' (by decide)

/-! ### quiesce -/

/-- in check there is no stand-pat: the initial score is the mated score of this ply -/
theorem q_incheck_score (ply score : Int) : qInCheckScore (ply := ply) (score := score) = -(Cl.MATE0 - (ply + 1)) := by
  simp [qInCheckScore, Cl.MATE0]

/-- a child is told it is in check only when its depth is ≥ −1, where the `depth < −6 ∧ mi ≥ 2` skip cannot fire:
    in check, quiesce tries every evasion -/
theorem q_incheck_no_skip (depth mi : Int) (givesCheck : Bool) (h : qNextInCheck (depth := depth) (givesCheck := givesCheck) = true) :
    qSkipCond (depth := depth - 1) (mi := mi) = false := by
  simp only [qNextInCheck] at h
  by_cases hd : depth - 1 > -2
  · simp only [qSkipCond, Bool.and_eq_false_iff, decide_eq_false_iff_not]; left; omega
  · simp [hd] at h

end Bridge.SearchGuards
