import TexelVerif.Generated.Draw
import TexelVerif.Draw.RepScan
/-!
# Bridge: `Search::canClaimDrawRep` / `canClaimDraw50` regenerated from search.hpp ≍ `TexelVerif/Draw/RepScan.lean`

The generated definitions take the position's observers (`pos.getHalfMoveClock()`, `pos.zobristHash()`) and the hash
list (`Nat → BitVec 64`) as explicit parameters.  The loop helper is proved equal to the hand model's `Rep.loop` by
induction on the fuel, for every fuel that covers the distance from `i` to `stop`; hence termination of the C++ loop.
-/
set_option linter.unusedSimpArgs false
namespace Bridge.Draw
open Gen.Draw

/-- `posHashList[i]`: the `int` index converted to `size_t` is the index itself when `0 ≤ i` -/
theorem ofInt_toNat (i : Int) (h0 : 0 ≤ i) (h1 : i < 2^63) : (BitVec.ofInt 64 i).toNat = i.toNat := by
  simp only [BitVec.toNat_ofInt]
  omega

theorem loop_eq (f0 : Nat) (zh : BitVec 64) (hl : Nat → BitVec 64) (firstNew stop : Int) (hstop : 0 ≤ stop) :
    ∀ (fuel fm : Nat) (i : Int) (r : Nat), 1 ≤ fuel → i + 2 < stop + 2 * fuel → i < stop + 2 * fm → i < 2^63 →
      canClaimDrawRep.loop1 f0 zh hl firstNew stop fuel (r : Int) i
        = some (Rep.loop (fun j => (hl j).toNat) stop firstNew zh.toNat fm i r) := by
  intro fuel
  induction fuel with
  | zero => intro fm i r h; omega
  | succ k ih =>
    intro fm i r _ hf hm hi
    unfold canClaimDrawRep.loop1
    by_cases hlt : i < stop
    · cases fm <;> simp [Rep.loop, hlt] <;> omega
    · obtain ⟨m, rfl⟩ : ∃ m, fm = m + 1 := ⟨fm - 1, by omega⟩
      have hk : 1 ≤ k := by omega
      have e := ofInt_toNat i (by omega) hi
      have ih1 := ih m (i - 2) r hk (by omega) (by omega) (by omega)
      have ih2 := ih m (i - 2) (r + 1) hk (by omega) (by omega) (by omega)
      have ec : ((r + 1 : Nat) : Int) = (r : Int) + 1 := by omega
      rw [ec] at ih2
      have ez : ((hl i.toNat).toNat = zh.toNat) ↔ (zh = hl i.toNat) := by
        rw [BitVec.toNat_inj]; exact eq_comm
      simp only [Rep.loop, e, ih1, ih2, ez]
      grind

/-- `Search::canClaimDrawRep`, regenerated from the source, terminates within `size + 1` iterations and computes the
    hand model `Rep.canClaimDrawRep` (about which `Rep.loop_eq` gives the declarative characterisation). -/
theorem canClaimDrawRep_eq (fuel : Nat) (hmc : Int) (zh : BitVec 64) (hl : Nat → BitVec 64) (size firstNew : Int)
    (hsize : size < 2^31) (hfuel : size.toNat + 1 ≤ fuel) :
    canClaimDrawRep fuel hmc zh hl size firstNew
      = some (Rep.canClaimDrawRep (fun j => (hl j).toNat) size hmc firstNew zh.toNat) := by
  have hstop : (0 : Int) ≤ max 0 (size - hmc) := Int.le_max_left _ _
  have := loop_eq fuel zh hl firstNew (max 0 (size - hmc)) hstop fuel (size.toNat + 1) (size - 4) 0
    (by omega) (by omega) (by omega) (by omega)
  simpa [canClaimDrawRep, Rep.canClaimDrawRep] using this

/-- `Search::canClaimDraw50`: the half-move clock has reached 100 -/
theorem canClaimDraw50_eq (hmc : Int) : canClaimDraw50 hmc = decide (100 ≤ hmc) := by
  simp [canClaimDraw50]

end Bridge.Draw
