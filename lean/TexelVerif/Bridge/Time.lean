import TexelVerif.Generated.Time
import TexelVerif.Time.Alloc
/-!
# Bridge: the integer parts of `EngineControl::computeTimeLimit` (clock branch), regenerated from enginecontrol.cpp

`computeTimeLimit` mixes `int` and `double` arithmetic, so the translator takes two *slices* of the clock branch:

* `Gen.Time.timeLimit_base`  — from `int moves = sPar.movesToGo;` up to (not including) the ponder-bonus `if`
  (outputs `moves, time, margin, timeLimit` and the receiver with `minTimeLimit = timeLimit`);
* `Gen.Time.timeLimit_clamp` — the two final `clamp(…, 1, time - margin)` assignments.

The floating-point statements in between (`minTimeLimit += (int)(…)`, `maxTimeLimit = (int)(minTimeLimit * clamp(…))`)
are abstracted exactly as in the hand model `Tm.alloc`: an arbitrary integer `bonus` and an arbitrary function `scale`.
The theorem composes the two slices around that abstraction and shows the result is `Tm.alloc`, the function the C06
theorems (`Tm.alloc_ok`) are about.
-/
namespace Bridge.Time
open Gen.Time

theorem clamp_eq (v lo hi : Int) : clamp v lo hi = Tm.clamp v lo hi := by
  simp [clamp, Tm.clamp]

/-- Clock branch of `computeTimeLimit`: regenerated integer slices + abstracted floating-point middle = `Tm.alloc`.
    Range hypotheses: clock times, increments, the buffer are non-negative, `movesToGo ≥ 0`, the "max remaining moves"
    parameter is ≥ 1 (its UCI range is 2..200) — under these C's truncating division is the floor division of the model. -/
theorem computeTimeLimit_eq (self : EngineControl) (bInc bTime movesToGo wInc wTime buffer maxRem : Int) (white : Bool)
    (bonus : Int) (scale : Int → Int)
    (hw : 0 ≤ wTime) (hb : 0 ≤ bTime) (hwi : 0 ≤ wInc) (hbi : 0 ≤ bInc) (hmtg : 0 ≤ movesToGo) (hrem : 1 ≤ maxRem) :
    let b := timeLimit_base self bInc bTime movesToGo wInc wTime buffer white maxRem
    let time := if white then wTime else bTime
    let inc := if white then wInc else bInc
    let mid : EngineControl := { b.2.2.2.2 with minTimeLimit := b.2.2.2.2.minTimeLimit + bonus,
                                                 maxTimeLimit := scale (b.2.2.2.2.minTimeLimit + bonus) }
    let r := timeLimit_clamp mid b.2.1 b.2.2.1
    r.minTimeLimit = (Tm.alloc time inc movesToGo maxRem buffer bonus scale).soft ∧
    r.maxTimeLimit = (Tm.alloc time inc movesToGo maxRem buffer bonus scale).hard := by
  intro b time inc mid r
  have ht : 0 ≤ time := by simp only [time]; split <;> assumption
  have hi : 0 ≤ inc := by simp only [inc]; split <;> assumption
  have e1 : Int.tdiv (time * 9) 10 = time * 9 / 10 := Int.tdiv_eq_ediv_of_nonneg (by omega)
  have hmoves : 1 ≤ min (if movesToGo = 0 then 999 else movesToGo) maxRem := by
    split <;> omega
  have hprod : 0 ≤ inc * (min (if movesToGo = 0 then 999 else movesToGo) maxRem - 1) :=
    Int.mul_nonneg hi (by omega)
  have hmargin : min buffer (time * 9 / 10) ≤ time := by omega
  have e2 : Int.tdiv (time + inc * (min (if movesToGo = 0 then 999 else movesToGo) maxRem - 1) - min buffer (time * 9 / 10))
        (min (if movesToGo = 0 then 999 else movesToGo) maxRem)
      = (time + inc * (min (if movesToGo = 0 then 999 else movesToGo) maxRem - 1) - min buffer (time * 9 / 10))
        / (min (if movesToGo = 0 then 999 else movesToGo) maxRem) := Int.tdiv_eq_ediv_of_nonneg (by omega)
  simp only [r, mid, b, timeLimit_clamp, timeLimit_base, Tm.alloc, clamp_eq, beq_iff_eq]
  simp only [time, inc] at e1 e2 ⊢
  constructor <;> simp [e1, e2]

end Bridge.Time
