import TexelVerif.Generated.Time
import TexelVerif.Time.Alloc
/-!
# Bridge: the integer parts of `EngineControl::computeTimeLimit` (clock branch), regenerated from enginecontrol.cpp

`computeTimeLimit` mixes `int` and `double` arithmetic, so the translator takes two *slices* of the clock branch:

* `Gen.Time.timeLimit_base`  — from `int moves = sPar.movesToGo;` up to (not including) the ponder-bonus `if`
  (outputs `moves, time, margin, timeLimit` and the receiver with `minTimeLimit = timeLimit`);
* `Gen.Time.timeLimit_clamp` — the two final `clamp(…, 1, time - margin)` assignments.

The floating-point statements in between (`minTimeLimit += (int)(…)`, `maxTimeLimit = (int)(minTimeLimit * clamp(…))`)
are abstracted exactly as in the hand model `Tm.alloc`: an arbitrary integer `bonus` and an arbitrary function `scale`.
The theorem composes the two slices around that abstraction and shows the result is `Tm.alloc`, the function the C06
theorems (`Tm.alloc_ok`) are about.
-/
set_option linter.unusedSimpArgs false
namespace Bridge.Time
open Gen.Time

theorem clamp_eq (v lo hi : Int) : clamp v lo hi = Tm.clamp v lo hi := by
  unfold clamp Tm.clamp
  grind

/-- the base slice for one colour (`time`, `inc` = that colour's clock and increment) -/
theorem base_eq (self : EngineControl) (time inc movesToGo buffer maxRem : Int)
    (ht : 0 ≤ time) (hi : 0 ≤ inc) (hmtg : 0 ≤ movesToGo) (hrem : 1 ≤ maxRem)
    (b : Int × Int × Int × Int × EngineControl)
    (hb : b = timeLimit_base self inc time movesToGo inc time buffer true maxRem ∨
          b = timeLimit_base self inc time movesToGo inc time buffer false maxRem) :
    let moves := min (if movesToGo = 0 then 999 else movesToGo) maxRem
    let margin := min buffer (time * 9 / 10)
    let tl := (time + inc * (moves - 1) - margin) / moves
    b = (moves, time, margin, tl, { self with minTimeLimit := tl }) := by
  intro moves margin tl
  have hmoves : 1 ≤ moves := by simp only [moves]; split <;> omega
  have hprod : 0 ≤ inc * (moves - 1) := Int.mul_nonneg hi (by omega)
  have hmar : margin ≤ time := by simp only [margin]; omega
  -- Gen's `moves`, whatever its spelling, is the model's
  have g1 : b.1 = moves := by
    rcases hb with rfl | rfl <;> simp only [timeLimit_base, beq_iff_eq, moves] <;> (repeat' split) <;> omega
  have g2 : b.2.1 = time := by
    rcases hb with rfl | rfl <;> simp [timeLimit_base]
  have g3 : b.2.2.1 = margin := by
    rcases hb with rfl | rfl <;>
      simp (disch := omega) [timeLimit_base, margin, Int.tdiv_eq_ediv_of_nonneg]
  have g4 : b.2.2.2.1 = tl := by
    rcases hb with rfl | rfl <;> (
      simp only [timeLimit_base, beq_iff_eq, Bool.false_eq_true, if_true, if_false] at g1 g3 ⊢
      simp only [g1, g3]
      exact Int.tdiv_eq_ediv_of_nonneg (by omega))
  have g5 : b.2.2.2.2 = { self with minTimeLimit := b.2.2.2.1 } := by
    rcases hb with rfl | rfl <;> simp only [timeLimit_base]
  rw [g4] at g5
  obtain ⟨b1, b2, b3, b4, b5⟩ := b
  simp only at g1 g2 g3 g4 g5
  rw [g1, g2, g3, g4, g5]

/-- Clock branch of `computeTimeLimit`: regenerated integer slices + abstracted floating-point middle = `Tm.alloc`. -/
theorem computeTimeLimit_eq (self : EngineControl) (bInc bTime movesToGo wInc wTime buffer maxRem : Int) (white : Bool)
    (bonus : Int) (scale : Int → Int)
    (hw : 0 ≤ wTime) (hb : 0 ≤ bTime) (hwi : 0 ≤ wInc) (hbi : 0 ≤ bInc) (hmtg : 0 ≤ movesToGo) (hrem : 1 ≤ maxRem) :
    let b := timeLimit_base self bInc bTime movesToGo wInc wTime buffer white maxRem
    let time := if white then wTime else bTime
    let inc := if white then wInc else bInc
    let mid : EngineControl := { b.2.2.2.2 with minTimeLimit := b.2.2.2.2.minTimeLimit + bonus,
                                                 maxTimeLimit := scale (b.2.2.2.2.minTimeLimit + bonus) }
    let r := timeLimit_clamp mid b.2.1 b.2.2.1
    r.minTimeLimit = (Tm.alloc time inc movesToGo maxRem buffer bonus scale).soft ∧
    r.maxTimeLimit = (Tm.alloc time inc movesToGo maxRem buffer bonus scale).hard := by
  intro b time inc mid r
  have hbase : b = _ := base_eq self time inc movesToGo buffer maxRem
    (by simp only [time]; split <;> assumption) (by simp only [inc]; split <;> assumption) hmtg hrem b
    (by cases white <;> simp [b, time, inc, timeLimit_base])
  simp only [r, mid, timeLimit_clamp, clamp_eq, hbase, Tm.alloc]
  exact ⟨trivial, trivial⟩
end Bridge.Time
