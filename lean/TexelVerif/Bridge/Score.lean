import TexelVerif.Generated.Score
import TexelVerif.Score.Claims
import TexelVerif.TT.Table
/-!
# Bridge: score classification and the UCI mate conversion of `Search::notifyPV`, regenerated from the source

* `SearchConst::isWinScore / isLoseScore` (constants.hpp) ≍ the predicates `Cl.isWin / Cl.isLose` of the mate-claim
  calculus (C04/C13) and `TT.isWinScore / isLoseScore` (C08);
* the slice of `Search::notifyPV` (search.cpp) between the declarations of `isMate` and `tNow`, as a function
  `score ↦ (isMate, reported score)`, ≍ `mateConv` below: a win score `s` is reported as "mate N" with
  `N = ⌈(MATE0 − s − 1 + 1)/2⌉` own moves, i.e. the ply budget `k = MATE0 − s − 1` of `Cl.Sound` at the root rounded up
  to whole moves; a lose score as "mate −N" with `N = ⌊(MATE0 + s − 1)/2⌋`.
-/
namespace Bridge.Score
open Gen.Score

theorem isWinScore_iff (s : Int) : isWinScore s = true ↔ Cl.isWin s := by
  simp [isWinScore, Cl.isWin, Cl.MATE0]

theorem isLoseScore_iff (s : Int) : isLoseScore s = true ↔ Cl.isLose s := by
  simp [isLoseScore, Cl.isLose, Cl.MATE0]

theorem isWinScore_eq (s : Int) : isWinScore s = TT.isWinScore s := by
  simp [isWinScore, TT.isWinScore]

theorem isLoseScore_eq (s : Int) : isLoseScore s = TT.isLoseScore s := by
  simp [isLoseScore, TT.isLoseScore]

/-- hand specification of the conversion done by `notifyPV` (floor division; all dividends are ≥ 0 in range) -/
def mateConv (s : Int) : Bool × Int :=
  if s > 16000 then (true, (32000 - s) / 2)
  else if s < -16000 then (true, -((32000 + s - 1) / 2))
  else (false, s)

/-- the regenerated slice computes `mateConv` for every score of the engine's range `−(MATE0−1) ≤ s ≤ MATE0`
    (at `s = −MATE0`, never produced by the search, C's truncating division and the floor differ) -/
theorem notifyPV_mate_eq (s : Int) (h1 : -31999 ≤ s) (h2 : s ≤ 32000) :
    notifyPV_mate s = mateConv s := by
  by_cases hw : s > 16000 <;> by_cases hl : s < -16000 <;>
    simp (disch := omega) [notifyPV_mate, mateConv, isWinScore, isLoseScore, hw, hl, Int.tdiv_eq_ediv_of_nonneg] <;>
    omega

/-- meaning of the reported number: "mate N" for a win score `s` covers exactly the ply budgets `2N−1` and `2N−2`
    (the side to move mates with its N-th move), "mate −N" for a lose score the budgets `2N` and `2N+1`. -/
theorem mateConv_win (s : Int) (hw : s > 16000) (h2 : s ≤ 32000) :
    (mateConv s).1 = true ∧ (32000 - s = 2 * (mateConv s).2 ∨ 32000 - s = 2 * (mateConv s).2 + 1) := by
  simp only [mateConv, hw, if_true]
  exact ⟨trivial, by omega⟩

theorem mateConv_lose (s : Int) (hl : s < -16000) (h1 : -31999 ≤ s) :
    (mateConv s).1 = true ∧ (32000 + s - 1 = 2 * (-(mateConv s).2) ∨ 32000 + s - 1 = 2 * (-(mateConv s).2) + 1) := by
  have hw : ¬ s > 16000 := by omega
  simp only [mateConv, hw, hl, if_true, if_false]
  exact ⟨trivial, by omega⟩

theorem mateConv_normal (s : Int) (h1 : -16000 ≤ s) (h2 : s ≤ 16000) : mateConv s = (false, s) := by
  have hw : ¬ s > 16000 := by omega
  have hl : ¬ s < -16000 := by omega
  simp only [mateConv, hw, hl, if_false]

end Bridge.Score
