import TexelVerif.Drv.TT
import TexelVerif.Drv.Proto
/-! Line-protocol driver: one operation per stdin line, one canonical reply line.
    Imports model files only (no proofs, no Mathlib), so it links as a `lean_exe`. -/

structure DrvState where
  tt : TT.Table := default
  proto : Drv.Proto.PState := {}

def dispatch (st : DrvState) (line : String) : DrvState × String :=
  let toks := (line.trimAscii.toString.splitOn " ").filter (· ≠ "")
  match toks with
  | "tt" :: args => let (t, o) := Drv.TT.step st.tt args; ({ st with tt := t }, o)
  | "proto" :: args => let (t, o) := Drv.Proto.step st.proto args; ({ st with proto := t }, o)
  | _ => (st, "bad-op")

partial def loop (h : IO.FS.Stream) (out : IO.FS.Stream) (st : DrvState) : IO Unit := do
  let line ← h.getLine
  if line.isEmpty then return ()
  let (st', o) := dispatch st line
  out.putStrLn o
  loop h out st'

def main : IO Unit := do
  let out ← IO.getStdout
  loop (← IO.getStdin) out {}
  out.flush
