import TexelVerif.Drv.TT
import TexelVerif.Drv.Chess
import TexelVerif.Drv.Uci
import TexelVerif.Drv.Mate
import TexelVerif.Drv.NN
import TexelVerif.Drv.PG
/-! Line-protocol driver: one operation per stdin line, one canonical reply line.
    Imports model files only (no proofs, no Mathlib), so it links as a `lean_exe`. -/

structure DrvState where
  tt : TT.Table := default
  nn : Drv.NN.State := {}

def dispatch (st : DrvState) (line : String) : DrvState × String :=
  let toks := (line.trimAscii.toString.splitOn " ").filter (· ≠ "")
  match toks with
  | "tt" :: args => let (t, o) := Drv.TT.step st.tt args; ({ st with tt := t }, o)
  | "chess" :: args => (st, Drv.Chess.step args)
  | "uci" :: args => (st, Drv.Uci.step args)
  | "mate" :: args => (st, Drv.Mate.step args)
  | "pg" :: args => (st, Drv.PG.step args)
  | "nn" :: args => let (t, o) := Drv.NN.step st.nn args; ({ st with nn := t }, o)
  | _ => (st, "bad-op")

partial def loop (h : IO.FS.Stream) (out : IO.FS.Stream) (st : DrvState) : IO Unit := do
  let line ← h.getLine
  if line.isEmpty then return ()
  let (st', o) := dispatch st line
  out.putStrLn o
  loop h out st'

def main : IO Unit := do
  let out ← IO.getStdout
  loop (← IO.getStdin) out {}
  out.flush
