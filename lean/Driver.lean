import TexelVerif.Drv.TT
import TexelVerif.Drv.Chess
import TexelVerif.Drv.Uci
import TexelVerif.Drv.Mate
import TexelVerif.Drv.TB13
import TexelVerif.Drv.NN
import TexelVerif.Drv.Time
import TexelVerif.Drv.Book
import TexelVerif.Drv.BookBuild
import TexelVerif.Drv.Csp
import TexelVerif.Drv.Pos
import TexelVerif.Drv.TB
import TexelVerif.Drv.Draw
import TexelVerif.Drv.Rev
import TexelVerif.Drv.Text
import TexelVerif.Drv.Proto
import TexelVerif.Drv.PG
/-! Line-protocol driver: one operation per stdin line, one canonical reply line.
    Imports model files only (no proofs, no Mathlib), so it links as a `lean_exe`. -/

structure DrvState where
  tt : TT.Table := default
  nn : Drv.NN.State := {}
  pgbook : Drv.Book.St := {}
  book : Drv.BookBuild.State := {}
  pos : Drv.Pos.State := {}
  text : Drv.Text.UciSt := {}
  proto : Drv.Proto.PState := {}

def dispatch (st : DrvState) (line : String) : DrvState × String :=
  let toks := (line.trimAscii.toString.splitOn " ").filter (· ≠ "")
  match toks with
  | "tt" :: args => let (t, o) := Drv.TT.step st.tt args; ({ st with tt := t }, o)
  | "chess" :: args => (st, Drv.Chess.step args)
  | "uci" :: args => (st, Drv.Uci.step args)
  | "mate" :: args => (st, Drv.Mate.step args)
  | "tb13" :: args => (st, Drv.TB13.step args)
  | "pg" :: args => (st, Drv.PG.step args)
  | "nn" :: args => let (t, o) := Drv.NN.step st.nn args; ({ st with nn := t }, o)
  | "tm" :: args => (st, Drv.Time.step args)
  | "pgbook" :: args => let (b, o) := Drv.Book.step st.pgbook args; ({ st with pgbook := b }, o)
  | "book" :: args => let (t, o) := Drv.BookBuild.step st.book args; ({ st with book := t }, o)
  | "bookrec" :: args => (st, Drv.BookBuild.stepRec args)
  | "csp" :: args => (st, Drv.Csp.solveLine args)
  | "bs" :: args => (st, Drv.Csp.bitset args)
  | "pos" :: args => let (p, o) := Drv.Pos.step st.pos args; ({ st with pos := p }, o)
  | "tb" :: args => (st, Drv.TB.step args)
  | "draw" :: args => (st, Drv.Draw.step args)
  | "rev" :: args => (st, Drv.Rev.step args)
  | "text" :: args => let (t, o) := Drv.Text.step st.text args; ({ st with text := t }, o)
  | "proto" :: args => let (t, o) := Drv.Proto.step st.proto args; ({ st with proto := t }, o)
  | _ => (st, "bad-op")

partial def loop (h : IO.FS.Stream) (out : IO.FS.Stream) (st : DrvState) : IO Unit := do
  let line ← h.getLine
  if line.isEmpty then return ()
  let (st', o) := dispatch st line
  out.putStrLn o
  loop h out st'

def main (args : List String) : IO UInt32 := do
  if !args.isEmpty then return (← Drv.TB.mainArgs args)   -- command-line modes (C12: need a table file)
  let out ← IO.getStdout
  loop (← IO.getStdin) out {}
  out.flush
  return 0
