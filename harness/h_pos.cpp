// C02: Position make/unmake histories, null-move style edits, copies, FEN and serialise round trips
// through the line protocol.  After EVERY op every field of the real Position is printed and the property's own
// predicate is evaluated on the implementation: each incrementally maintained field is compared with a
// from-scratch recomputation, and after a take-back the position is compared bit for bit with the saved copy.
// pieceTypeBB_[Piece::EMPTY] is deliberately outside the comparison: movePieceNotPawn does not maintain it and
// nothing reads it (tools/checks/c02.py greps the sources for readers).
#include <memory>
#include <vector>
#include <string>
#include <sstream>
#include <algorithm>
#include <map>
#define private public
#define protected public
#include "position.hpp"
#include "moveGen.hpp"
#include "textio.hpp"
#include "material.hpp"
#include "evaluate.hpp"
#undef private
#undef protected
#include "parameters.hpp"
#include "random.hpp"
#include "harness.hpp"

std::string vFenErrClass(const std::string& msg);
std::string vFenOf(const std::vector<std::string>& a, size_t from, size_t to);

static std::string hx(U64 v) { std::ostringstream os; os << std::hex << v; return os.str(); }

// ---- the state that must agree (everything in PositionBase except pieceTypeBB_[EMPTY]) --------------------
static std::string diffFields(const Position& a, const Position& b) {
    std::string d;
    auto add = [&](const char* n) { if (!d.empty()) d += ','; d += n; };
    for (Square s : AllSquares()) if (a.squares[s] != b.squares[s]) { add("squares"); break; }
    for (int i = 1; i < Piece::nPieceTypes; i++) if (a.pieceTypeBB_[i] != b.pieceTypeBB_[i]) { add("pieceTypeBB"); break; }
    if (a.whiteBB_ != b.whiteBB_) add("whiteBB");
    if (a.blackBB_ != b.blackBB_) add("blackBB");
    if (a.whiteMove != b.whiteMove) add("whiteMove");
    if (a.castleMask != b.castleMask) add("castleMask");
    if (a.epSquare != b.epSquare) add("epSquare");
    if (a.halfMoveClock != b.halfMoveClock) add("halfMoveClock");
    if (a.fullMoveCounter != b.fullMoveCounter) add("fullMoveCounter");
    if (a.hashKey != b.hashKey) add("hashKey");
    if (a.pHashKey != b.pHashKey) add("pHashKey");
    if (a.matId() != b.matId()) add("matId");
    if (a.wMtrl_ != b.wMtrl_) add("wMtrl");
    if (a.bMtrl_ != b.bMtrl_) add("bMtrl");
    if (a.wMtrlPawns_ != b.wMtrlPawns_) add("wMtrlPawns");
    if (a.bMtrlPawns_ != b.bMtrlPawns_) add("bMtrlPawns");
    return d;
}

// from-scratch recomputation of every redundant field out of squares[] and the flags
static std::string recheck(const Position& pos) {
    std::string d;
    auto add = [&](const char* n) { if (!d.empty()) d += ','; d += n; };
    Position c(pos);
    U64 h = c.computeZobristHash();          // recomputes hashKey, pHashKey, matId from the board
    if (h != pos.hashKey) add("hashKey");
    if (c.pHashKey != pos.pHashKey) add("pHashKey");
    if (c.matId() != pos.matId()) add("matId");
    U64 bb[Piece::nPieceTypes] = {0}; U64 w = 0, b = 0;
    int wm = -::kV, bm = -::kV, wp = 0, bp = 0;
    for (Square s : AllSquares()) {
        int p = pos.squares[s];
        if (p < 0 || p >= Piece::nPieceTypes) { add("piece-range"); continue; }
        if (p == Piece::EMPTY) continue;
        bb[p] |= 1ULL << s.asInt();
        if (Piece::isWhite(p)) { w |= 1ULL << s.asInt(); wm += ::pieceValue[p]; if (p == Piece::WPAWN) wp += ::pieceValue[p]; }
        else { b |= 1ULL << s.asInt(); bm += ::pieceValue[p]; if (p == Piece::BPAWN) bp += ::pieceValue[p]; }
    }
    for (int i = 1; i < Piece::nPieceTypes; i++) if (bb[i] != pos.pieceTypeBB_[i]) { add("pieceTypeBB"); break; }
    if (w != pos.whiteBB_) add("whiteBB");
    if (b != pos.blackBB_) add("blackBB");
    if (wm != pos.wMtrl_) add("wMtrl");
    if (bm != pos.bMtrl_) add("bMtrl");
    if (wp != pos.wMtrlPawns_) add("wMtrlPawns");
    if (bp != pos.bMtrlPawns_) add("bMtrlPawns");
    if (bb[Piece::WKING] && pos.wKingSq().asInt() != BitUtil::firstBit(bb[Piece::WKING])) add("wKingSq");
    if (bb[Piece::BKING] && pos.bKingSq().asInt() != BitUtil::firstBit(bb[Piece::BKING])) add("bKingSq");
    return d;
}

static std::string under(std::string s) { for (char& c : s) if (c == ' ') c = '_'; return s; }

static std::string record(const std::string& op, const Position& pos, const std::string& extra) {
    std::ostringstream os;
    os << op << " hk=" << hx(pos.hashKey) << " ph=" << hx(pos.pHashKey) << " mid=" << pos.matId() << " bb=";
    for (int i = 1; i < Piece::nPieceTypes; i++) os << (i > 1 ? "," : "") << hx(pos.pieceTypeBB_[i]);
    os << " w=" << hx(pos.whiteBB_) << " b=" << hx(pos.blackBB_)
       << " wk=" << (pos.pieceTypeBB_[Piece::WKING] ? pos.wKingSq().asInt() : -1)
       << " bk=" << (pos.pieceTypeBB_[Piece::BKING] ? pos.bKingSq().asInt() : -1)
       << " wtm=" << (pos.whiteMove ? 1 : 0) << " cm=" << pos.castleMask << " ep=" << pos.epSquare.asInt()
       << " hmc=" << pos.halfMoveClock << " fmc=" << pos.fullMoveCounter
       << " mt=" << pos.wMtrl_ << ',' << pos.bMtrl_ << ',' << pos.wMtrlPawns_ << ',' << pos.bMtrlPawns_;
    std::string d = recheck(pos);
    os << " chk=" << (d.empty() ? "ok" : "MISMATCH:" + d);
    // FEN round trip: toFEN -> readFEN -> identical up to the reader's e.p. normalisation
    std::string fen = TextIO::toFEN(pos);
    os << " fen=" << under(fen) << " rt=";
    try {
        Position back = TextIO::readFEN(fen);
        Position want(pos);
        TextIO::fixupEPSquare(want);
        // the (repaired) reader clamps both counters to 0..65535; beyond that the round trip is exact up to the clamp
        bool beyond = pos.halfMoveClock > 65535 || pos.fullMoveCounter > 65535;
        if (want.halfMoveClock > 65535) want.halfMoveClock = 65535;
        if (want.fullMoveCounter > 65535) want.fullMoveCounter = 65535;
        std::string dd = diffFields(back, want);
        os << (dd.empty() ? (beyond ? "clamped" : "ok") : "MISMATCH:" + dd);
    } catch (const ChessParseError& e) {
        os << "err:" << vFenErrClass(e.what());
    }
    // compact serialisation round trip (exact when the counters fit their fields)
    Position::SerializeData sd;
    pos.serialize(sd);
    os << " ser=";
    for (int i = 0; i < 5; i++) os << (i ? "," : "") << hx(sd.v[i]);
    if (pos.halfMoveClock >= 0 && pos.halfMoveClock < 256 && pos.fullMoveCounter >= 0 && pos.fullMoveCounter < 65536) {
        Position p3;
        p3.deSerialize(sd);
        std::string dd = diffFields(p3, pos);
        os << (dd.empty() ? "/ok" : "/MISMATCH:" + dd);
        // ... and into a reused object that still holds the previously recorded position (stale e.p. square, castle mask, keys)
        static thread_local Position reused;
        reused.deSerialize(sd);
        std::string d2 = diffFields(reused, pos);
        os << (d2.empty() ? " reuse=ok" : " reuse=MISMATCH:" + d2);
    } else {
        os << "/out-of-range";
    }
    // assignment between positions that are equal under the rules but differ in their counters must copy everything
    {
        Position twin(pos);
        twin.setHalfMoveClock(pos.getHalfMoveClock() ^ 5);
        twin.setFullMoveCounter(pos.getFullMoveCounter() + 3);
        twin = pos;
        std::string d4 = diffFields(twin, pos);
        os << (d4.empty() ? " asg=ok" : " asg=MISMATCH:" + d4);
    }
    // the light-weight make/unmake pair used by the static exchange evaluation must restore the position for every legal move
    {
        Position work(pos);
        MoveList ml; MoveGen::pseudoLegalMoves(work, ml); MoveGen::removeIllegal(work, ml);
        std::string bad;
        for (int i = 0; i < ml.size && bad.empty(); i++) {
            UndoInfo ui;
            work.makeSEEMove(ml[i], ui);
            work.unMakeSEEMove(ml[i], ui);
            std::string d3 = diffFields(work, pos);
            if (!d3.empty()) bad = TextIO::moveToUCIString(ml[i]) + ":" + d3;
        }
        os << (bad.empty() ? " see=ok" : " see=MISMATCH:" + bad);
    }
    os << extra;
    return os.str();
}

namespace {
struct Frame {
    bool isNull;
    Move m; UndoInfo ui;
    Square ep; int hmc;        // null-move edit: what negaScout saves
    Position saved;
};
}

static bool findLegal(Position& pos, const std::string& uci, Move& out) {
    MoveList ml; MoveGen::pseudoLegalMoves(pos, ml); MoveGen::removeIllegal(pos, ml);
    for (int i = 0; i < ml.size; i++)
        if (TextIO::moveToUCIString(ml[i]) == uci) { out = ml[i]; return true; }
    return false;
}

static std::string runHistory(const std::vector<std::string>& a) {
    size_t bar = 1;
    while (bar < a.size() && a[bar] != "|") bar++;
    Position pos = TextIO::readFEN(vFenOf(a, 1, bar));
    std::string out = record("start", pos, "");
    std::vector<Frame> stack;
    for (size_t i = bar + 1; i < a.size(); i++) {
        const std::string& op = a[i];
        out += " ; ";
        if (op.size() >= 5 && op[0] == 'm') {
            Move m;
            if (!findLegal(pos, op.substr(1), m)) { out += "illegal"; break; }
            Frame f; f.isNull = false; f.m = m; f.saved = pos; f.ep = Square(-1); f.hmc = 0;
            pos.makeMove(m, f.ui);
            stack.push_back(f);
            out += record(op, pos, "");
        } else if (op == "n") {
            // the null-move edit of Search::negaScout (search.cpp:707-713); only done when not in check
            if (MoveGen::inCheck(pos)) { out += "illegal"; break; }
            Frame f; f.isNull = true; f.saved = pos;
            pos.setWhiteMove(!pos.isWhiteMove());
            f.ep = pos.getEpSquare();
            pos.setEpSquare(Square(-1));
            f.hmc = pos.getHalfMoveClock();
            pos.setHalfMoveClock(0);
            stack.push_back(f);
            out += record(op, pos, "");
        } else if (op == "u") {
            if (stack.empty()) { out += "illegal"; break; }
            Frame& f = stack.back();
            if (f.isNull) {            // search.cpp:715-717
                pos.setEpSquare(f.ep);
                pos.setWhiteMove(!pos.isWhiteMove());
                pos.setHalfMoveClock(f.hmc);
            } else {
                pos.unMakeMove(f.m, f.ui);
            }
            std::string d = diffFields(pos, f.saved);
            stack.pop_back();
            out += record(op, pos, d.empty() ? " tb=ok" : " tb=MISMATCH:" + d);
        } else if (op == "c") {
            Position tmp(pos);         // copy construction + copy assignment
            Position tmp2; tmp2 = tmp;
            std::string d = diffFields(tmp2, pos);
            pos = tmp2;
            out += record(op, pos, d.empty() ? " cp=ok" : " cp=MISMATCH:" + d);
        } else {
            out += "bad-op"; break;
        }
    }
    return out;
}

// random history (input generator only): ops string for `pos run`
//   mode 0: random walk; mode 1: promotion-heavy (prefers promotions to queen, pawn pushes, avoids capturing queens)
static std::string genHistory(U64 seed, int maxOps, int mode, const std::string& fen) {
    Position pos = TextIO::readFEN(fen);
    Random rnd(seed);
    struct F { bool isNull; Move m; UndoInfo ui; Square ep; int hmc; };
    std::vector<F> stack;
    std::string out;
    int pendingUndo = 0;
    for (int i = 0; i < maxOps; i++) {
        std::string op;
        int r = rnd.nextInt(100);
        if (pendingUndo > 0 && !stack.empty()) {
            op = "u"; pendingUndo--;
        } else if (r < 4 && !stack.empty()) {
            pendingUndo = rnd.nextInt(std::min<int>(stack.size(), 12)) ; op = "u";   // forced take-back segment
        } else if (r < 8 && !MoveGen::inCheck(pos)) {
            op = "n";
        } else if (r < 10) {
            op = "c";
        } else {
            MoveList ml; MoveGen::pseudoLegalMoves(pos, ml); MoveGen::removeIllegal(pos, ml);
            if (ml.size == 0) {
                if (stack.empty()) break;
                pendingUndo = rnd.nextInt(std::min<int>(stack.size(), 6)); op = "u";
            } else {
                int k = rnd.nextInt(ml.size);
                if (mode == 1) {
                    int best = -1000;
                    for (int j = 0; j < ml.size; j++) {
                        int sc = rnd.nextInt(40);
                        int p = pos.getPiece(ml[j].from()), cap = pos.getPiece(ml[j].to());
                        if (ml[j].promoteTo() == Piece::WQUEEN || ml[j].promoteTo() == Piece::BQUEEN) sc += 200;
                        else if (ml[j].promoteTo() != Piece::EMPTY) sc += 20;
                        if (p == Piece::WPAWN || p == Piece::BPAWN) sc += 60;
                        if (cap == Piece::WQUEEN || cap == Piece::BQUEEN) sc -= 80;
                        if (cap == Piece::WPAWN || cap == Piece::BPAWN) sc -= 60;
                        if (p == Piece::WKING || p == Piece::BKING) sc += 10;
                        if (sc > best) { best = sc; k = j; }
                    }
                } else {
                    for (int t = 0; t < 2; t++) {   // a little bias towards captures / promotions / castling / e.p.
                        int j = rnd.nextInt(ml.size);
                        int p = pos.getPiece(ml[j].from());
                        bool king2 = (p == Piece::WKING || p == Piece::BKING) && std::abs(ml[j].to().asInt() - ml[j].from().asInt()) == 2;
                        if (pos.getPiece(ml[j].to()) != Piece::EMPTY || ml[j].promoteTo() != Piece::EMPTY || king2 ||
                            ml[j].to() == pos.getEpSquare()) k = j;
                    }
                }
                op = "m" + TextIO::moveToUCIString(ml[k]);
                F f; f.isNull = false; f.m = ml[k]; f.ep = Square(-1); f.hmc = 0;
                pos.makeMove(ml[k], f.ui); stack.push_back(f);
            }
        }
        if (op == "n") {
            F f; f.isNull = true;
            pos.setWhiteMove(!pos.isWhiteMove()); f.ep = pos.getEpSquare(); pos.setEpSquare(Square(-1));
            f.hmc = pos.getHalfMoveClock(); pos.setHalfMoveClock(0);
            stack.push_back(f);
        } else if (op == "u") {
            F& f = stack.back();
            if (f.isNull) { pos.setEpSquare(f.ep); pos.setWhiteMove(!pos.isWhiteMove()); pos.setHalfMoveClock(f.hmc); }
            else pos.unMakeMove(f.m, f.ui);
            stack.pop_back();
        }
        if (!out.empty()) out += ' ';
        out += op;
    }
    return out.empty() ? "none" : out;
}

static std::string tables() {
    std::ostringstream os;
    os << hx(0x5fd230cc43568439ULL) /* hashEmpty is file-static in position.cpp; cross-checked below */ << ' ' << hx(Position::whiteHashKey);
    for (int i = 0; i < 16; i++) os << ' ' << hx(Position::castleHashKeys[i]);
    for (int i = 0; i < 9; i++) os << ' ' << hx(Position::epHashKeys[i]);
    for (int p = 0; p < Piece::nPieceTypes; p++)
        for (Square s : AllSquares()) os << ' ' << hx(Position::psHashKeys[p][s]);
    for (int p = 0; p < Piece::nPieceTypes; p++) os << ' ' << ::pieceValue[p];
    os << ' ' << ::kV;
    for (int p = 0; p < Piece::nPieceTypes; p++) os << ' ' << MatId::materialId[p];
    return os.str();
}

static std::string handle(const std::vector<std::string>& a) {
    if (a.empty()) return "bad-op";
    const std::string& op = a[0];
    try {
        if (op == "tables" && a.size() == 1) {
            // hashEmpty cross-check: the empty board with black to move, no castling, no e.p.
            Position e; e.setWhiteMove(false);
            U64 he = e.computeZobristHash() ^ Position::castleHashKeys[0] ^ Position::epHashKeys[0];
            if (he != 0x5fd230cc43568439ULL) return "hashEmpty-changed " + hx(he);
            return tables();
        }
        if (op == "init") {
            std::string mine = tables(), theirs;
            for (size_t i = 1; i < a.size(); i++) { if (i > 1) theirs += ' '; theirs += a[i]; }
            return mine == theirs ? "ok" : "tables-differ";
        }
        if (op == "masks" && a.size() == 1) {
            std::ostringstream os;
            for (int i = 0; i < 8; i++) os << hx(BitBoard::epMaskW[i]) << ' ';
            for (int i = 0; i < 8; i++) os << hx(BitBoard::epMaskB[i]) << ' ';
            for (Square s : AllSquares()) os << (int)Position::castleSqMask[s] << (s.asInt() == 63 ? "" : " ");
            return os.str();
        }
        if (op == "matw" && a.size() == 1) {
            std::ostringstream os;
            for (int p = 0; p < Piece::nPieceTypes; p++) os << (p ? " " : "") << MatId::materialId[p];
            return os.str();
        }
        if (op == "run" && a.size() >= 2) return runHistory(a);
        if (op == "mscore" && a.size() >= 2) {
            // UB probe for the users of the material id: Evaluate::materialScore (hash-table index computed from
            // the id) and the endgame dispatch; needs a network file (TEXEL_VERIF_NET)
            static std::unique_ptr<Evaluate::EvalHashTables> et = Evaluate::getEvalHashTables();
            Position pos = TextIO::readFEN(vFenOf(a, 1, a.size()));
            Evaluate ev(*et);
            ev.connectPosition(pos);
            int sc = ev.materialScore(false);
            std::ostringstream os;
            os << "mid=" << pos.materialId() << " idx=" << (ev.mhd - &ev.materialHash[0]) << " id=" << ev.mhd->id
               << " score=" << sc << " eg=" << (int)ev.mhd->endGame << " mirror=" << MatId::mirror(pos.materialId());
            return os.str();
        }
        if (op == "genhist" && a.size() >= 5) {
            U64 seed = vToU64(a[1]); int n = (int)vToU64(a[2]); int mode = (int)vToU64(a[3]);
            return genHistory(seed, n, mode, vFenOf(a, 4, a.size()));
        }
    } catch (const ChessParseError& e) {
        return "err " + vFenErrClass(e.what());
    }
    return "bad-op";
}
static VReg reg("pos", handle);
