// C20: CspSolver and BitSet<64,-16> through the line protocol (see lean/TexelVerif/Drv/Csp.lean for the grammar).
// The pre-checks below mirror, one for one, the points where the real code would trip an assert, index outside an
// array or overflow an int (the model reports the same inputs as `err ...`); everything else goes to the real code.
#include <memory>
#include <vector>
#include <string>
#include <sstream>
#include <stdexcept>
#define private public
#define protected public
#include "cspsolver.hpp"
#undef private
#undef protected
#include "harness.hpp"

namespace {

const long long INT_MIN_LL = -2147483648LL, INT_MAX_LL = 2147483647LL;
const long long C_MAX = 2147483600LL;   // |offset| limit: getMaxBit()+c, getMinBit()-c, values[v2]+c, -offs stay in int
const long long M_MAX = 2147483630LL;   // removeLarger: maxVal - offs + 1 stays in int

bool strictNat(const std::string& s, long long& out) {
    if (s.empty() || s.size() > 10) return false;
    long long v = 0;
    for (char c : s) { if (c < '0' || c > '9') return false; v = v * 10 + (c - '0'); }
    out = v; return true;
}
int int32(const std::string& s) {
    long long v; bool neg = !s.empty() && s[0] == '-';
    if (!strictNat(neg ? s.substr(1) : s, v)) throw std::invalid_argument("int");
    if (neg) v = -v;
    if (v < INT_MIN_LL || v > INT_MAX_LL) throw std::invalid_argument("int");
    return (int)v;
}
int varId(const std::string& s) {
    long long v;
    if (!strictNat(s, v) || v > INT_MAX_LL) throw std::invalid_argument("var");
    return (int)v;
}
CspSolver::PrefVal pref(const std::string& s) {
    if (s == "0") return CspSolver::PrefVal::SMALL;
    if (s == "1") return CspSolver::PrefVal::LARGE;
    if (s == "2") return CspSolver::PrefVal::MIDDLE_SMALL;
    if (s == "3") return CspSolver::PrefVal::MIDDLE_LARGE;
    throw std::invalid_argument("pref");
}

struct Call { char op; int a, b, c; CspSolver::PrefVal p; };

std::string errAt(const char* kind, size_t i) { return std::string("err ") + kind + " " + std::to_string(i); }

std::string cspLine(const std::vector<std::string>& t) {
    // parse the whole line first (malformed anywhere => bad-op, like the model)
    std::vector<Call> calls;
    size_t i = 0, n = t.size();
    while (i < n) {
        const std::string& op = t[i];
        if (op.size() != 1) return "bad-op";
        Call c { op[0], 0, 0, 0, CspSolver::PrefVal::SMALL };
        switch (op[0]) {
        case 'V': if (i + 3 >= n) return "bad-op"; c.p = pref(t[i+1]); c.a = int32(t[i+2]); c.b = int32(t[i+3]); i += 4; break;
        case 'E': case 'O': if (i + 1 >= n) return "bad-op"; c.a = varId(t[i+1]); i += 2; break;
        case 'm': case 'M': if (i + 2 >= n) return "bad-op"; c.a = varId(t[i+1]); c.b = int32(t[i+2]); i += 3; break;
        case 'L': case 'G': case 'Q':
            if (i + 3 >= n) return "bad-op"; c.a = varId(t[i+1]); c.b = varId(t[i+2]); c.c = int32(t[i+3]); i += 4; break;
        default: return "bad-op";
        }
        calls.push_back(c);
    }
    std::ostringstream devnull;
    CspSolver csp(devnull, true);
    int nVars = 0;
    for (size_t k = 0; k < calls.size(); k++) {
        const Call& c = calls[k];
        switch (c.op) {
        case 'V':
            if (c.a < -16 || c.a >= 48 || c.b < -16 || c.b >= 48) return errAt("range", k);   // the four asserts of addVariable
            if (csp.addVariable(c.p, c.a, c.b) != nVars) return "harness-error var id";
            nVars++;
            break;
        case 'E': if (c.a >= nVars) return errAt("var", k); csp.makeEven(c.a); break;         // domain[varNo]
        case 'O': if (c.a >= nVars) return errAt("var", k); csp.makeOdd(c.a); break;
        case 'm':
            if (c.a >= nVars) return errAt("var", k);
            if (c.b >= 48) return errAt("window", k);                                         // removeSmaller would touch data[1]
            csp.addMinVal(c.a, c.b); break;
        case 'M':
            if (c.a >= nVars) return errAt("var", k);
            if (c.b > M_MAX) return errAt("overflow", k);                                     // maxVal - offs + 1 overflows
            if (c.b < -17) return errAt("window", k);                                         // removeLarger would touch data[-1]
            csp.addMaxVal(c.a, c.b); break;
        case 'L': case 'G': case 'Q':
            if (c.a >= nVars || c.b >= nVars) return errAt("var", k);                         // the asserts of addIneq
            if (c.c < -C_MAX || c.c > C_MAX) return errAt("overflow", k);
            if (c.op == 'L') csp.addIneq(c.a, CspSolver::LE, c.b, c.c);
            else if (c.op == 'G') csp.addIneq(c.a, CspSolver::GE, c.b, c.c);
            else csp.addEq(c.a, c.b, c.c);
            break;
        }
    }
    if (nVars > 0 && csp.constr.size() > 192) return "err toomany";                           // the assert of solve()
    std::vector<int> values;
    bool ok = csp.solve(values);
    std::ostringstream os;
    if (ok) {
        os << "sat " << csp.getNumNodes();
        for (int v : values) os << ' ' << v;
    } else {
        if (csp.getNumNodes() == 0) return "unsat arc";
        os << "unsat search " << csp.getNumNodes();
    }
    os << " ;";
    for (const auto& d : csp.domain) os << ' ' << vHex(d.data[0]);
    return os.str();
}

std::string bitsetOp(const std::vector<std::string>& a) {
    if (a.size() < 2) return "bad-op";
    const std::string& op = a[0];
    if (a[1].size() < 3 || a[1][0] != '0' || a[1][1] != 'x') return "bad-op";
    U64 w = vToU64(a[1]);
    std::vector<int> r;
    for (size_t i = 2; i < a.size(); i++) r.push_back(int32(a[i]));
    using Domain = BitSet<64, -16>;
    Domain d; d.data[0] = w;
    auto inWin = [](int v) { return v >= -16 && v < 48; };
    size_t n = r.size();
    if (op == "setrange" && n == 2) {
        if (r[1] > M_MAX || r[0] >= 48 || r[1] < -17) return "err";
        d.setRange(r[0], r[1]); return vHex(d.data[0]);
    }
    if (op == "odd" && n == 0) { d.removeOdd(); return vHex(d.data[0]); }
    if (op == "even" && n == 0) { d.removeEven(); return vHex(d.data[0]); }
    if (op == "smaller" && n == 1) { if (r[0] >= 48) return "err"; d.removeSmaller(r[0]); return vHex(d.data[0]); }
    if (op == "larger" && n == 1) { if (r[0] > M_MAX || r[0] < -17) return "err"; d.removeLarger(r[0]); return vHex(d.data[0]); }
    if (op == "min" && n == 0) return std::to_string(d.getMinBit());
    if (op == "max" && n == 0) return std::to_string(d.getMaxBit());
    if (op == "empty" && n == 0) return d.empty() ? "1" : "0";
    if (op == "count" && n == 0) return std::to_string(d.bitCount());
    if (op == "get" && n == 1) { if (!inWin(r[0])) return "err"; return d.getBit(r[0]) ? "1" : "0"; }
    if (op == "set" && n == 1) { if (!inWin(r[0])) return "err"; d.setBit(r[0]); return vHex(d.data[0]); }
    if (op == "clear" && n == 1) { if (!inWin(r[0])) return "err"; d.clearBit(r[0]); return vHex(d.data[0]); }
    if ((op == "pick" || op == "order") && n == 1) {
        if (r[0] < 0 || r[0] > 3) return "bad-op";
        CspSolver::PrefVal p = pref(std::to_string(r[0]));
        std::ostringstream devnull;
        CspSolver csp(devnull, true);
        if (op == "pick") return std::to_string(csp.getBitVal(d, p));
        std::string out;     // the value loop of solveRecursive: getBitVal / clearBit until empty
        int guard = 0;
        while (!d.empty() && guard++ < 100) {
            int v = csp.getBitVal(d, p);
            if (!inWin(v)) return out + " !outside";
            d.clearBit(v);
            out += " " + std::to_string(v);
        }
        return out;
    }
    return "bad-op";
}

VReg regCsp("csp", cspLine);
VReg regBs("bs", bitsetOp);

}
