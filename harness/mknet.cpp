#include "nntypes.hpp"
#include "random.hpp"
#include "binfile.hpp"
#include <fstream>
#include <sstream>
#include <iostream>
#include <vector>
// usage: mknet <seed> <kind: small|big|material> <out>   (uncompressed NetData, read back through the TEXEL_VERIF_NET hook)
int main(int argc, char** argv) {
    U64 seed = std::stoull(argv[1]); std::string kind = argv[2];
    auto np = NetData::create(); NetData& n = *np;
    Random r(seed);
    auto rnd = [&](int lo, int hi) { return lo + (int)(r.nextU64() % (U64)(hi - lo + 1)); };
    int w1 = kind == "small" ? 8 : 40;
    for (size_t i = 0; i < COUNT_OF(n.weight1.data); i++) n.weight1.data[i] = rnd(-w1, w1);
    for (int i = 0; i < NetData::n1; i++) n.bias1.data[i] = rnd(0, 60);
    if (kind == "material") {
        // make feature rows depend on piece type only: strong material signal on a few lanes
        for (int k = 0; k < 32; k++) for (int pt = 0; pt < 10; pt++) for (int sq = 0; sq < 64; sq++) {
            int row = (k*10+pt)*64+sq;
            static const int val[5] = {90, 50, 32, 30, 10};
            int v = val[pt % 5] * (pt < 5 ? 1 : -1);
            for (int i = 0; i < 16; i++) n.weight1.data[row*NetData::n1 + i] = v + rnd(-2,2);
        }
    }
    for (auto& h : n.head) {
        for (auto& w : h.lin2.weight.data) w = rnd(-20, 20);
        for (auto& b : h.lin2.bias.data) b = rnd(-500, 500);
        for (auto& w : h.lin3.weight.data) w = rnd(-30, 30);
        for (auto& b : h.lin3.bias.data) b = rnd(-500, 500);
        for (auto& w : h.lin4.weight.data) w = rnd(-40, 40);
        for (auto& b : h.lin4.bias.data) b = rnd(-2000, 2000);
    }
    std::ofstream os(argv[3], std::ios::binary);
    n.save(os);
    std::cout << "net " << kind << " seed " << seed << " written to " << argv[3] << "\n";
    return 0;
}
