// C08: TranspositionTable through the line protocol
#include <memory>
#include <vector>
#include <string>
#include <sstream>
#include <atomic>
#include <mutex>
#define private public
#define protected public
#include "transpositionTable.hpp"
#undef private
#undef protected
#include "harness.hpp"

static std::unique_ptr<TranspositionTable> tt;
using TTEntry = TranspositionTable::TTEntry;

static std::string showEntry(const TTEntry& e, int ply) {
    std::ostringstream os;
    Move m; e.getMove(m);
    os << "hit " << vHex(e.getKey()) << ' ' << vHex(e.getData()) << ' ' << m.getCompressedMove() << ' '
       << e.getScore(ply) << ' ' << e.getDepth() << ' ' << e.getType() << ' ' << e.getEvalScore() << ' '
       << e.getGeneration() << ' ' << (e.getBusy() ? 1 : 0);
    return os.str();
}

static std::string handle(const std::vector<std::string>& a) {
    if (a.empty()) return "bad-op";
    const std::string& op = a[0];
    size_t n = a.size();
    if (op == "new" && n == 2) {
        U64 sz = vToU64(a[1]);
        tt.reset(new TranspositionTable(sz));
        return "ok " + std::to_string(tt->tableSize);
    }
    if (op == "setbits" && n == 5) {
        U64 d = vToU64(a[1]); U64 f = vToU64(a[2]), s = vToU64(a[3]), v = vToU64(a[4]);
        if (f + s > 64 || s > 32 || v > 0xffffffffULL) return "bad-op";
        TTEntry e(0, d); e.setBits((int)f, (int)s, (unsigned)v);
        return vHex(e.getData());
    }
    if (op == "getbits" && n == 4) {
        U64 d = vToU64(a[1]); U64 f = vToU64(a[2]), s = vToU64(a[3]);
        if (f + s > 64 || s > 32) return "bad-op";
        TTEntry e(0, d);
        return std::to_string(e.getBits((int)f, (int)s));
    }
    if (op == "score" && n == 4) {
        TTEntry e; e.setScore((int)vToInt(a[1]), (int)vToInt(a[2]));
        return std::to_string(e.getScore((int)vToInt(a[3])));
    }
    if (op == "cut" && n == 6) {
        TTEntry e(0, vToU64(a[1]));
        return e.isCutOff((int)vToInt(a[2]), (int)vToInt(a[3]), (int)vToInt(a[4]), (int)vToInt(a[5])) ? "1" : "0";
    }
    if (op == "better" && n == 4) {
        TTEntry x(0, vToU64(a[1])), y(0, vToU64(a[2]));
        return x.betterThan(y, (int)vToU64(a[3])) ? "1" : "0";
    }
    if (!tt) return "bad-op";
    if (op == "idx" && n == 2)
        return std::to_string(tt->getIndex(vToU64(a[1])));
    if (op == "used" && n == 2) {
        tt->setUsedSize(vToU64(a[1]));
        return std::to_string(tt->usedSizeTopBits) + " " + std::to_string(tt->usedSizeShift) + " " + vHex(tt->usedSizeMask);
    }
    if (op == "ins" && n == 11) {
        U64 key = vToU64(a[1]);
        U64 f = vToU64(a[2]), t = vToU64(a[3]), pr = vToU64(a[4]);
        if (f > 63 || t > 63 || pr > 15) return "bad-op";
        Move m(Square((int)f), Square((int)t), (int)pr, (int)vToInt(a[5]));
        tt->insert(key, m, (int)vToInt(a[6]), (int)vToInt(a[7]), (int)vToInt(a[8]), (int)vToInt(a[9]), vToU64(a[10]) != 0);
        return "ok";
    }
    if (op == "probe" && n == 3) {
        TTEntry e;
        tt->probe(vToU64(a[1]), e);
        if (e.getType() == TType::T_EMPTY) return "miss";
        TTEntry shown(e.getKey() ^ tt->contemptHash, e.getData());
        return showEntry(shown, (int)vToInt(a[2]));
    }
    if (op == "busy" && n == 3) {
        // what Search::negaScout does at depth >= 7 with a hit: tt.probe(key, ent); tt.setBusy(ent, ply)
        TTEntry e;
        tt->probe(vToU64(a[1]), e);
        if (e.getType() == TType::T_EMPTY) return "miss";
        tt->setBusy(e, (int)vToInt(a[2]));
        return "ok";
    }
    if (op == "gen" && n == 1) { tt->nextGeneration(); return "ok " + std::to_string((int)tt->generation); }
    if (op == "clear" && n == 1) { tt->clear(); return "ok"; }
    if (op == "contempt" && n == 2) { tt->setWhiteContempt((int)vToInt(a[1])); return "ok"; }
    if (op == "dump" && n == 2) {
        U64 i = vToU64(a[1]);
        if (i >= tt->tableSize) return "bad-op";
        return vHex(tt->table[i].key.load()) + " " + vHex(tt->table[i].data.load());
    }
    if (op == "putb" && n == 3) {
        U64 i = vToU64(a[1]), v = vToU64(a[2]);
        if (i >= tt->byteSize() || v > 255) return "bad-op";
        tt->putByte(i, (U8)v); return "ok";
    }
    if (op == "getb" && n == 2) {
        U64 i = vToU64(a[1]);
        if (i >= tt->byteSize()) return "bad-op";
        return std::to_string((int)tt->getByte(i));
    }
    return "bad-op";
}
static VReg reg("tt", handle);

// ---- multi-thread hammer: support for the relaxed-atomic abstraction (implementation only) ----
#include <thread>
#include <chrono>
static inline U64 mix(U64 k, U64 v) {
    U64 z = k * 0x9E3779B97F4A7C15ULL + v * 0xBF58476D1CE4E5B9ULL + 0x94D049BB133111EBULL;
    z ^= z >> 31; z *= 0xD6E8FEB86659FD93ULL; z ^= z >> 29; return z;
}
struct Rec { int from, to, score, type, depth, eval; };
static Rec recOf(U64 key, int v) {
    U64 h = mix(key, v);
    Rec r;
    r.from = h & 63; r.to = (h >> 6) & 63; if (r.to == r.from) r.to = (r.from + 1) & 63;
    r.score = (int)((h >> 12) % 2001) - 1000;
    r.type = 1 + (int)((h >> 24) % 3);
    r.depth = (int)((h >> 28) % 200);
    r.eval = (int)((h >> 40) % 4001) - 2000;
    return r;
}
static std::string hammer(const std::vector<std::string>& a) {
    if (a.size() != 3) return "bad-op";
    int nThreads = (int)vToU64(a[0]); int millis = (int)vToU64(a[1]); U64 seed = vToU64(a[2]);
    if (nThreads < 1 || nThreads > 64) return "bad-op";
    TranspositionTable table(1024);
    std::vector<U64> keys;
    for (int b = 0; b < 2; b++)
        for (int j = 0; j < 12; j++)
            keys.push_back((0x1234ULL << 48) | ((U64)(j * 7919 + 1) << 8) | (b ? 4 : 0));
    std::atomic<U64> hits(0), inserts(0), badCnt(0);
    std::string badMsg;
    std::mutex badMutex;
    for (int g = 0; g < (int)(seed % 5); g++) {          // a few generations of older entries, written single-threaded
        for (U64 key : keys) {
            Rec r = recOf(key, g & 7);
            table.insert(key, Move(Square(r.from), Square(r.to), 0, r.score), r.type, 0, r.depth, r.eval);
        }
        table.nextGeneration();
    }
    auto deadline = std::chrono::steady_clock::now() + std::chrono::milliseconds(millis);
    auto worker = [&](int tid) {
        U64 s = mix(seed, tid + 1);
        U64 n = 0;
        while (true) {
            if ((++n & 1023) == 0 && std::chrono::steady_clock::now() > deadline) break;
            s = mix(s, n);
            U64 key = keys[s % keys.size()];
            if ((s >> 32) % 3 == 0) {
                Rec r = recOf(key, (int)((s >> 40) & 7));
                // a quarter of the stores carry the empty move: insert() then keeps the move already stored for this key
                bool emptyMove = ((s >> 44) & 3) == 0;
                Move m(Square(emptyMove ? 0 : r.from), Square(emptyMove ? 0 : r.to), 0, r.score);
                table.insert(key, m, r.type, 0, r.depth, r.eval);
                inserts++;
                // (no nextGeneration() here: in the engine the generation changes only between searches, while the helpers are parked;
                //  calling it from a hammer thread would be a race of the harness, not of the table)
            } else {
                TTEntry e;
                table.probe(key, e);
                if (e.getType() == TType::T_EMPTY) continue;
                hits++;
                bool okRec = false;
                Move m; e.getMove(m);
                // score/type/depth/eval must come from ONE record stored for this key; the move from some record of this
                // key (or be empty), because an empty-move store keeps the key's previous move
                bool okMove = m.isEmpty() && m.promoteTo() == 0;
                for (int v = 0; v < 8 && !okMove; v++) {
                    Rec r = recOf(key, v);
                    okMove = m.from().asInt() == r.from && m.to().asInt() == r.to && m.promoteTo() == 0;
                }
                for (int v = 0; v < 8 && !okRec; v++) {
                    Rec r = recOf(key, v);
                    okRec = okMove && e.getKey() == key &&
                            e.getScore(0) == r.score && e.getType() == r.type && e.getDepth() == r.depth &&
                            e.getEvalScore() == r.eval && !e.getBusy();
                }
                if (!okRec) {
                    badCnt++;
                    std::lock_guard<std::mutex> L(badMutex);
                    if (badMsg.empty()) badMsg = "key=" + vHex(key) + " entkey=" + vHex(e.getKey()) + " data=" + vHex(e.getData());
                }
            }
        }
    };
    std::vector<std::thread> th;
    for (int i = 0; i < nThreads; i++) th.emplace_back(worker, i);
    for (auto& t : th) t.join();
    if (badCnt.load()) return "BAD count=" + std::to_string(badCnt.load()) + " first: " + badMsg;
    return "ok hits=" + std::to_string(hits.load()) + " inserts=" + std::to_string(inserts.load());
}
static VReg regH("tthammer", hammer);
