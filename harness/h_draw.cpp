// C11: Search::canClaimDrawRep, EngineControl::setupPosition, Game::processString / getGameState,
// ComputerPlayer::canClaimDraw through the line protocol; generators for histories with repetitions.
#include <memory>
#include <vector>
#include <string>
#include <sstream>
#include <iostream>
#include <algorithm>
#include <atomic>
#include <mutex>
#include <thread>
#include <map>
#include <condition_variable>
#define private public
#define protected public
#include "position.hpp"
#include "search.hpp"
#include "game.hpp"
#include "computerPlayer.hpp"
#include "enginecontrol.hpp"
#include "uciprotocol.hpp"
#undef private
#undef protected
#include "humanPlayer.hpp"
#include "moveGen.hpp"
#include "textio.hpp"
#include "random.hpp"
#include "harness.hpp"

std::string vFenOf(const std::vector<std::string>& a, size_t from, size_t to);
std::string vFenErrClass(const std::string& msg);

namespace {

struct EcEnv {
    EngineMainThread et;
    std::ostringstream os;
    SearchListener sl;
    EngineControl ec;
    EcEnv() : sl(os), ec(os, et, sl) {}
};
EcEnv& ecEnv() { static EcEnv* e = new EcEnv; return *e; }
ComputerPlayer& cpEnv() { static ComputerPlayer* p = new ComputerPlayer; return *p; }

bool inI32(long long v) { return v >= -2147483648LL && v <= 2147483647LL; }

bool uciShape(const std::string& s) {
    if (s.size() != 4 && s.size() != 5) return false;
    auto f = [](char c) { return c >= 'a' && c <= 'h'; };
    auto r = [](char c) { return c >= '1' && c <= '8'; };
    if (!(f(s[0]) && r(s[1]) && f(s[2]) && r(s[3]))) return false;
    if (s.size() == 5 && !(s[4] == 'q' || s[4] == 'r' || s[4] == 'b' || s[4] == 'n')) return false;
    return true;
}

void legalMoves(Position& pos, MoveList& ml) { MoveGen::pseudoLegalMoves(pos, ml); MoveGen::removeIllegal(pos, ml); }

// the legal move with this coordinate text, or the empty move
Move findLegal(Position& pos, const std::string& s) {
    MoveList ml; legalMoves(pos, ml);
    for (int i = 0; i < ml.size; i++)
        if (TextIO::moveToUCIString(ml[i]) == s) return ml[i];
    return Move();
}

// coordinate text as the console parser wants it (promotion piece in upper case)
std::string consoleMove(const std::string& s) {
    std::string r = s;
    if (r.size() == 5) r[4] = (char)toupper(r[4]);
    return r;
}

struct CoutSilencer {   // Game prints diagnostics to std::cout
    std::streambuf* old;
    std::ostringstream sink;
    CoutSilencer() : old(std::cout.rdbuf(sink.rdbuf())) {}
    ~CoutSilencer() { std::cout.rdbuf(old); }
};

const char* stateCode(Game::GameState s) {
    switch (s) {
    case Game::ALIVE: return "A"; case Game::WHITE_MATE: return "WM"; case Game::BLACK_MATE: return "BM";
    case Game::WHITE_STALEMATE: return "WS"; case Game::BLACK_STALEMATE: return "BS"; case Game::DRAW_REP: return "DR";
    case Game::DRAW_50: return "D50"; case Game::DRAW_NO_MATE: return "DN"; case Game::DRAW_AGREE: return "DA";
    case Game::RESIGN_WHITE: return "RW"; case Game::RESIGN_BLACK: return "RB";
    }
    return "?";
}

std::string showStep(Game& g, bool ret) {
    Game::GameState st = g.getGameState();
    bool dm = (st == Game::DRAW_REP || st == Game::DRAW_50) && !g.drawStateMoveStr.empty();
    std::ostringstream os;
    Square ep = g.pos.getEpSquare();
    os << (ret ? 1 : 0) << ',' << stateCode(st) << ',' << (g.haveDrawOffer() ? 1 : 0) << ',' << g.currentMove << ','
       << g.moveList.size() << ',' << (g.pendingDrawOffer ? 1 : 0) << ',' << (dm ? 1 : 0) << ','
       << (ep.isValid() ? TextIO::squareToString(ep) : std::string("-")) << ',' << g.pos.getHalfMoveClock();
    return os.str();
}

std::string cpQuery(Game& g, const std::string& s) {
    Position pos(g.pos);
    Move m = findLegal(pos, s);
    if (m.isEmpty()) return "cp=na";
    std::vector<Position> history;
    g.getHistory(history);
    // as in ComputerPlayer::getCommand
    std::vector<U64> posHashList(SearchConst::MAX_SEARCH_DEPTH * 2 + history.size());
    int posHashListSize = 0;
    for (size_t i = 0; i < history.size(); i++)
        posHashList[posHashListSize++] = history[i].zobristHash();
    std::string c = cpEnv().canClaimDraw(pos, posHashList, posHashListSize, m);
    if (c.empty()) return "cp=none";
    if (c == "draw 50") return "cp=50";
    if (c == "draw rep") return "cp=rep";
    if (c.compare(0, 8, "draw 50 ") == 0) return "cp=50m";
    if (c.compare(0, 9, "draw rep ") == 0) return "cp=repm";
    return "cp=?" + c;
}

std::string runGame(const std::vector<std::string>& a) {
    std::vector<std::vector<std::string>> items(1);
    for (size_t i = 1; i < a.size(); i++) {
        if (a[i] == ";") items.emplace_back(); else items.back().push_back(a[i]);
    }
    CoutSilencer quiet;
    Game g(make_unique<HumanPlayer>(), make_unique<HumanPlayer>());
    std::vector<std::string> outs;
    for (const auto& t : items) {
        std::string cmd;
        size_t n = t.size();
        if (n == 0) return "bad-op";
        const std::string& k = t[0];
        bool isCp = false;
        if (n == 1 && (k == "new" || k == "undo" || k == "redo" || k == "resign")) cmd = k;
        else if (n == 1 && k == "noop") cmd = "swap";
        else if (n == 1 && k == "junk") cmd = "draw";
        else if (n == 1 && k == "accept") cmd = "draw accept";
        else if (n == 7 && k == "setpos") cmd = "setpos " + vFenOf(t, 1, 7);
        else if (n == 2 && k == "mv" && uciShape(t[1])) cmd = consoleMove(t[1]);
        else if (n == 1 && k == "rep") cmd = "draw rep";
        else if (n == 2 && k == "rep" && uciShape(t[1])) cmd = "draw rep " + consoleMove(t[1]);
        else if (n == 1 && k == "fifty") cmd = "draw 50";
        else if (n == 2 && k == "fifty" && uciShape(t[1])) cmd = "draw 50 " + consoleMove(t[1]);
        else if (n == 2 && k == "offer" && uciShape(t[1])) cmd = "draw offer " + consoleMove(t[1]);
        else if (n == 2 && k == "cp" && uciShape(t[1])) isCp = true;
        else return "bad-op";
        if (isCp) { outs.push_back(cpQuery(g, t[1])); continue; }
        bool r = g.processString(cmd);
        outs.push_back(showStep(g, r));
    }
    outs.push_back(TextIO::toFEN(g.pos));
    return vJoin(outs, " ; ");
}

// ---- generators (produce inputs only; every sequence is re-validated by the Lean specification) ------------------

bool reversible(const Position& pos, const Move& m) {
    int p = pos.getPiece(m.from());
    if (p == Piece::WPAWN || p == Piece::BPAWN) return false;
    if (pos.getPiece(m.to()) != Piece::EMPTY) return false;
    if ((p == Piece::WKING || p == Piece::BKING) && std::abs(m.to().getX() - m.from().getX()) > 1) return false;
    return true;
}

// one 4-ply cycle A out, B out, A back, B back from pos; appends to `out`; false if none found
bool addCycle(Position& pos, Random& rnd, std::vector<Move>& out) {
    MoveList la; legalMoves(pos, la);
    std::vector<int> ia;
    for (int i = 0; i < la.size; i++) if (reversible(pos, la[i])) ia.push_back(i);
    for (size_t t = ia.size(); t > 1; t--) std::swap(ia[t - 1], ia[rnd.nextInt((int)t)]);
    int tries = 0;
    for (int i : ia) {
        if (++tries > 6) break;
        Move a = la[i];
        UndoInfo u1; pos.makeMove(a, u1);
        MoveList lb; legalMoves(pos, lb);
        std::vector<int> ib;
        for (int j = 0; j < lb.size; j++) if (reversible(pos, lb[j])) ib.push_back(j);
        for (size_t t = ib.size(); t > 1; t--) std::swap(ib[t - 1], ib[rnd.nextInt((int)t)]);
        int tries2 = 0;
        for (int j : ib) {
            if (++tries2 > 6) break;
            Move b = lb[j];
            UndoInfo u2; pos.makeMove(b, u2);
            Move a2 = findLegal(pos, TextIO::moveToUCIString(Move(a.to(), a.from(), Piece::EMPTY)));
            if (!a2.isEmpty()) {
                UndoInfo u3; pos.makeMove(a2, u3);
                Move b2 = findLegal(pos, TextIO::moveToUCIString(Move(b.to(), b.from(), Piece::EMPTY)));
                if (!b2.isEmpty()) {
                    UndoInfo u4; pos.makeMove(b2, u4);
                    TextIO::fixupEPSquare(pos);
                    out.push_back(a); out.push_back(b); out.push_back(a2); out.push_back(b2);
                    return true;
                }
                pos.unMakeMove(a2, u3);
            }
            pos.unMakeMove(b, u2);
        }
        pos.unMakeMove(a, u1);
    }
    return false;
}

// draw gen <seed> <prefixPlies> <revPercent> <cycles> <tailPlies> <fen6> [forced moves…]
//   forced moves, then a random walk of prefixPlies (each ply: with revPercent % a reversible move if one exists),
//   then `cycles` four-ply cycles over random routes, then a random tail; prints "<k0> <k1> | moves…" where the cycles occupy
//   plies k0 .. k1-1.  Stops early at mate / stalemate.
std::string gen(const std::vector<std::string>& a) {
    if (a.size() < 12) return "bad-op";
    U64 seed = vToU64(a[1]);
    long long prefix = vToInt(a[2]), revPct = vToInt(a[3]), cycles = vToInt(a[4]), tail = vToInt(a[5]);
    if (prefix < 0 || prefix > 2000 || cycles < 0 || cycles > 200 || tail < 0 || tail > 2000 || revPct < 0 || revPct > 100) return "bad-op";
    Position pos = TextIO::readFEN(vFenOf(a, 6, 12));
    Random rnd(seed);
    std::vector<Move> ms;
    for (size_t i = 12; i < a.size(); i++) {
        Move m = findLegal(pos, a[i]);
        if (m.isEmpty()) return "illegal " + std::to_string(i - 12);
        UndoInfo ui; pos.makeMove(m, ui); TextIO::fixupEPSquare(pos);
        ms.push_back(m);
    }
    auto walk = [&](long long plies) {
        for (long long i = 0; i < plies; i++) {
            MoveList ml; legalMoves(pos, ml);
            if (ml.size == 0) return;
            std::vector<int> rev;
            for (int j = 0; j < ml.size; j++) if (reversible(pos, ml[j])) rev.push_back(j);
            int k;
            if (!rev.empty() && rnd.nextInt(100) < revPct) k = rev[rnd.nextInt((int)rev.size())];
            else k = rnd.nextInt(ml.size);
            UndoInfo ui; pos.makeMove(ml[k], ui); TextIO::fixupEPSquare(pos);
            ms.push_back(ml[k]);
        }
    };
    walk(prefix);
    size_t k0 = ms.size();
    for (long long c = 0; c < cycles; c++)
        if (!addCycle(pos, rnd, ms)) break;
    size_t k1 = ms.size();
    walk(tail);
    std::vector<std::string> v;
    v.push_back(std::to_string(k0)); v.push_back(std::to_string(k1)); v.push_back("|");
    for (const Move& m : ms) v.push_back(TextIO::moveToUCIString(m));
    return vJoin(v);
}

std::string handle(const std::vector<std::string>& a) {
    if (a.empty()) return "bad-op";
    const std::string& op = a[0];
    try {
        if (op == "scan" && a.size() >= 5) {
            long long size = vToInt(a[1]), hmc = vToInt(a[2]), firstNew = vToInt(a[3]);
            U64 h = vToU64(a[4]);
            std::vector<U64> hs;
            for (size_t i = 5; i < a.size(); i++) hs.push_back(vToU64(a[i]));
            if (!inI32(size) || !inI32(hmc) || !inI32(firstNew)) return "bad-op";
            if (size > (long long)hs.size()) return "bad-op";
            Position pos;
            pos.halfMoveClock = (int)hmc;
            pos.hashKey = h;
            return Search::canClaimDrawRep(pos, hs, (int)size, (int)firstNew) ? "1" : "0";
        }
        if (op == "setup" && a.size() >= 7) {
            Position pos0 = TextIO::readFEN(vFenOf(a, 1, 7));
            Position pos(pos0);
            std::vector<Move> moves;
            std::vector<U64> norm;      // hashes of the game's positions, e.p. square normalised as the FEN reader does
            norm.push_back(pos.zobristHash());
            for (size_t i = 7; i < a.size(); i++) {
                Move m = findLegal(pos, a[i]);
                if (m.isEmpty()) return "illegal " + std::to_string(i - 7);
                UndoInfo ui; pos.makeMove(m, ui); TextIO::fixupEPSquare(pos);
                moves.push_back(m);
                norm.push_back(pos.zobristHash());
            }
            EngineControl& ec = ecEnv().ec;
            ec.setupPosition(pos0, moves);
            std::ostringstream os;
            os << "size=" << ec.posHashListSize << " idx=";
            for (int i = 0; i < ec.posHashListSize; i++) {
                if (i) os << ',';
                size_t j = 0;
                while (j < norm.size() && norm[j] != ec.posHashList[i]) j++;
                if (j < norm.size()) os << j; else os << '?';
            }
            os << " fen=" << TextIO::toFEN(ec.pos);
            return os.str();
        }
        if (op == "game") return runGame(a);
        if (op == "gen") return gen(a);
    } catch (const ChessParseError& e) {
        return "err " + vFenErrClass(e.what());
    } catch (const ChessError& e) {
        return std::string("chess-error ") + e.what();
    }
    return "bad-op";
}
VReg reg("draw", handle);
}
