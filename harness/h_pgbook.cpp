// C18: opening-book probe (Book::getBookMove / getBookEntries, PolyglotBook) through the line protocol.
// Protocol word `pgbook` (h_book.cpp / `book` belong to the book *builder*, C19).
//
//   pgbook file <hex>|-            write the bytes to the session's temp file and make it the BookFile
//   pgbook run <n> <keyhex> <movehex> <weighthex>   file := n identical 16-byte records (for huge equal-key runs)
//   pgbook nofile                  BookFile := a path that does not exist
//   pgbook builtin                 BookFile := ""  (built-in book compiled from Book::bookLines)
//   pgbook key <fen>               PolyglotBook::getHashKey
//   pgbook rand <i>                PolyglotBook::hashRandoms[i]   (i < 781)
//   pgbook dec <u16> <fen>         PolyglotBook::getMove
//   pgbook enc <uci> <fen>         PolyglotBook::getPGMove
//   pgbook ser <key> <move> <weight>    serialize -> 32 hex digits ; deser <32 hex digits>
//   pgbook entries <fen>           Book::getBookEntries  -> "n uci:weight ..."
//   pgbook probe <seed> <fen>      rndGen.setSeed(seed); Book::getBookMove -> "none" | "<uci> legal=<0|1>"
//   pgbook u64 <seed>              Random(seed).nextU64()  (first draw after seeding; what getBookMove consumes)
//   pgbook all <seed> <fen>        as computerPlayer.cpp: getBookMove, then getAllBookMoves if a move came back
//   pgbook sparse <len> / dir      BookFile := sparse file of <len> zero bytes / a directory
//   pgbook line <k>                moves of built-in book line k as UCI (input generator)
//   pgbook walk <k> <seed>         built-in book probed at every position of its own line k
#include <memory>
#include <vector>
#include <string>
#include <sstream>
#include <fstream>
#include <algorithm>
#include <cstdio>
#include <unistd.h>
#define private public
#define protected public
#include "position.hpp"
#include "moveGen.hpp"
#include "textio.hpp"
#include "book.hpp"
#include "polyglot.hpp"
#include "parameters.hpp"
#undef private
#undef protected
#include "random.hpp"
#include "harness.hpp"

std::string vFenOf(const std::vector<std::string>& a, size_t from, size_t to);
std::string vFenErrClass(const std::string& msg);

namespace {

std::string tmpPath() {
    static std::string p;
    if (p.empty()) {
        const char* d = getenv("TMPDIR");
        p = std::string(d ? d : "/tmp") + "/pgbook_" + std::to_string((long)getpid()) + ".bin";
        struct Rm { std::string p; ~Rm() { std::remove(p.c_str()); } };
        static Rm rm{p};
    }
    return p;
}

void setBookFile(const std::string& path) {
    UciParams::bookFile->set(path);
}

int hexVal(char c) {
    if (c >= '0' && c <= '9') return c - '0';
    if (c >= 'a' && c <= 'f') return c - 'a' + 10;
    return -1;
}

bool isLegalMove(Position& pos, const Move& m) {
    MoveList ml; MoveGen::pseudoLegalMoves(pos, ml); MoveGen::removeIllegal(pos, ml);
    for (int i = 0; i < ml.size; i++)
        if (ml[i] == m) return true;
    return false;
}

std::string handle(const std::vector<std::string>& a) {
    if (a.empty()) return "bad-op";
    const std::string& op = a[0];
    try {
        if (op == "file" && a.size() == 2) {
            std::string bytes;
            if (a[1] != "-") {
                const std::string& h = a[1];
                if (h.size() % 2) return "bad-op";
                for (size_t i = 0; i < h.size(); i += 2) {
                    int x = hexVal(h[i]), y = hexVal(h[i + 1]);
                    if (x < 0 || y < 0) return "bad-op";
                    bytes += (char)(x * 16 + y);
                }
            }
            std::ofstream os(tmpPath().c_str(), std::ios::binary | std::ios::trunc);
            os.write(bytes.data(), bytes.size());
            os.close();
            if (!os) return "io-error";
            setBookFile(tmpPath());
            return "ok " + std::to_string(bytes.size());
        }
        if (op == "run" && a.size() == 5) {
            U64 n = vToU64(a[1]), key = vToU64(a[2]), mv = vToU64(a[3]), w = vToU64(a[4]);
            if (n > (1u << 24) || mv > 0xffff || w > 0xffff) return "bad-op";
            PolyglotBook::PGEntry ent;
            PolyglotBook::serialize(key, (U16)mv, (U16)w, ent);
            std::ofstream os(tmpPath().c_str(), std::ios::binary | std::ios::trunc);
            for (U64 i = 0; i < n; i++) os.write((const char*)ent.data, 16);
            os.close();
            if (!os) return "io-error";
            setBookFile(tmpPath());
            return "ok " + std::to_string(n * 16);
        }
        if (op == "sparse" && a.size() == 2) {
            // file of <len> zero bytes without writing them (ftruncate); for the > 2 GiB offset arithmetic
            U64 len = vToU64(a[1]);
            if (len > (1ull << 36)) return "bad-op";
            { std::ofstream os(tmpPath().c_str(), std::ios::binary | std::ios::trunc); }
            if (truncate(tmpPath().c_str(), (off_t)len) != 0) return "io-error";
            setBookFile(tmpPath());
            return "ok " + std::to_string(len);
        }
        if (op == "dir" && a.size() == 1) {
            const char* d = getenv("TMPDIR");
            setBookFile(d ? d : "/tmp");
            return "ok";
        }
        if (op == "nofile" && a.size() == 1) {
            setBookFile(tmpPath() + ".does-not-exist");
            return "ok";
        }
        if (op == "builtin" && a.size() == 1) {
            setBookFile("");
            return "ok";
        }
        if (op == "rand" && a.size() == 2) {
            U64 i = vToU64(a[1]);
            if (i >= 781) return "bad-op";
            return vHex(PolyglotBook::hashRandoms[i]);
        }
        if (op == "ser" && a.size() == 4) {
            U64 k = vToU64(a[1]), m = vToU64(a[2]), w = vToU64(a[3]);
            if (m > 0xffff || w > 0xffff) return "bad-op";
            PolyglotBook::PGEntry ent;
            PolyglotBook::serialize(k, (U16)m, (U16)w, ent);
            static const char* hd = "0123456789abcdef";
            std::string s;
            for (int i = 0; i < 16; i++) { s += hd[ent.data[i] >> 4]; s += hd[ent.data[i] & 15]; }
            return s;
        }
        if (op == "deser" && a.size() == 2) {
            if (a[1].size() != 32) return "bad-op";
            PolyglotBook::PGEntry ent;
            for (int i = 0; i < 16; i++) {
                int x = hexVal(a[1][2 * i]), y = hexVal(a[1][2 * i + 1]);
                if (x < 0 || y < 0) return "bad-op";
                ent.data[i] = (U8)(x * 16 + y);
            }
            U64 k; U16 m, w;
            PolyglotBook::deSerialize(ent, k, m, w);
            return vHex(k) + " " + std::to_string(m) + " " + std::to_string(w);
        }
        if (op == "u64" && a.size() == 2) {
            Random r(vToU64(a[1]));
            return vHex(r.nextU64());
        }
        if (op == "line" && a.size() == 2) {
            U64 k = vToU64(a[1]);
            U64 n = 0;
            while (Book::bookLines[n]) n++;
            if (k >= n) return "bad-op";
            Position pos = TextIO::readFEN(TextIO::startPosFEN);
            std::vector<std::string> toks, out;
            splitString(Book::bookLines[k], toks);
            UndoInfo ui;
            for (std::string s : toks) {
                if (!s.empty() && s.back() == '?') s.pop_back();
                Move m = TextIO::stringToMove(pos, s);
                if (m.isEmpty()) return "bad-line";
                out.push_back(TextIO::moveToUCIString(m));
                pos.makeMove(m, ui);
            }
            return std::to_string(n) + " " + vJoin(out);
        }
        if (op == "walk" && a.size() == 3) {
            // built-in book along its own line k, probing the Position object reached by makeMove (as in a game):
            // "<fen> | <bad?> <line move> | <probe result>" per ply, separated by " ; "
            U64 k = vToU64(a[1]), seed = vToU64(a[2]);
            U64 n = 0;
            while (Book::bookLines[n]) n++;
            if (k >= n) return "bad-op";
            Book book(false);
            book.initBook();
            Book::rndGen.setSeed(seed);
            Position pos = TextIO::readFEN(TextIO::startPosFEN);
            std::vector<std::string> toks;
            splitString(Book::bookLines[k], toks);
            UndoInfo ui;
            std::string out;
            for (std::string s : toks) {
                bool bad = false;
                if (!s.empty() && s.back() == '?') { s.pop_back(); bad = true; }
                Move lm = TextIO::stringToMove(pos, s);
                if (lm.isEmpty()) return "bad-line";
                Move m;
                book.getBookMove(pos, m);
                if (!out.empty()) out += " ; ";
                out += TextIO::toFEN(pos) + " | " + (bad ? "1 " : "0 ") + TextIO::moveToUCIString(lm) + " | ";
                out += m.isEmpty() ? std::string("none") : TextIO::moveToUCIString(m) + " legal=" + (isLegalMove(pos, m) ? "1" : "0");
                pos.makeMove(lm, ui);
            }
            return out;
        }
        if (op == "key" && a.size() >= 2) {
            Position pos = TextIO::readFEN(vFenOf(a, 1, a.size()));
            return vHex(PolyglotBook::getHashKey(pos));
        }
        if (op == "dec" && a.size() >= 3) {
            U64 m = vToU64(a[1]);
            if (m > 0xffff) return "bad-op";
            Position pos = TextIO::readFEN(vFenOf(a, 2, a.size()));
            Move mv = PolyglotBook::getMove(pos, (U16)m);
            return std::to_string(mv.from().asInt()) + " " + std::to_string(mv.to().asInt()) + " " + std::to_string(mv.promoteTo());
        }
        if (op == "enc" && a.size() >= 3) {
            Position pos = TextIO::readFEN(vFenOf(a, 2, a.size()));
            Move mv = TextIO::uciStringToMove(a[1]);
            if (mv.isEmpty()) return "bad-op";
            return std::to_string(PolyglotBook::getPGMove(pos, mv));
        }
        if (op == "entries" && a.size() >= 2) {
            Position pos = TextIO::readFEN(vFenOf(a, 1, a.size()));
            Book book(false);
            book.initBook();
            std::vector<Book::BookEntry> ents;
            book.getBookEntries(pos, ents);
            std::string s = std::to_string(ents.size());
            for (const Book::BookEntry& be : ents)
                s += " " + std::to_string(be.move.from().asInt()) + "." + std::to_string(be.move.to().asInt()) + "." +
                     std::to_string(be.move.promoteTo()) + ":" + std::to_string(be.count);
            return s;
        }
        if (op == "probe" && a.size() >= 3) {
            U64 seed = vToU64(a[1]);
            Position pos = TextIO::readFEN(vFenOf(a, 2, a.size()));
            Book book(false);
            book.initBook();                 // seeds rndGen from the clock on the first call only
            Book::rndGen.setSeed(seed);
            Move m;
            book.getBookMove(pos, m);
            if (m.isEmpty()) return "none";
            return std::to_string(m.from().asInt()) + "." + std::to_string(m.to().asInt()) + "." + std::to_string(m.promoteTo()) +
                   " legal=" + (isLegalMove(pos, m) ? "1" : "0");
        }
        if (op == "all" && a.size() >= 3) {
            U64 seed = vToU64(a[1]);
            Position pos = TextIO::readFEN(vFenOf(a, 2, a.size()));
            Book book(false);
            book.initBook();
            Book::rndGen.setSeed(seed);
            Move m;
            book.getBookMove(pos, m);
            if (m.isEmpty()) return "none";
            std::string s = book.getAllBookMoves(pos);
            while (!s.empty() && s.back() == ' ') s.pop_back();
            return TextIO::moveToString(pos, m, false) + " | " + s;
        }
    } catch (const ChessParseError& e) {
        return "err " + vFenErrClass(e.what());
    }
    return "bad-op";
}
VReg reg("pgbook", handle);

} // namespace
