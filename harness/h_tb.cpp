// C12: on-demand tablebase generator (TBGenerator / TBPosition / TBIndex, TranspositionTable::updateTB/probeDTM)
// through the line protocol.  Counts are always given in PieceCount order: nwq nwr nwb nwn nbq nbr nbb nbn.
#include <memory>
#include <vector>
#include <string>
#include <sstream>
#include <fstream>
#include <atomic>
#include <thread>
#include <chrono>
#include <algorithm>
#define private public
#define protected public
#include "transpositionTable.hpp"
#include "tbgen.hpp"
#include "position.hpp"
#include "random.hpp"
#include "moveGen.hpp"
#undef private
#undef protected
#include "harness.hpp"

#ifdef TEXEL_VERIF
extern void (*tbGenVerifHook)(int phase, int n);
#endif

static bool parseCounts(const std::vector<std::string>& a, size_t at, PieceCount& pc) {
    if (a.size() < at + 8) return false;
    int v[8];
    for (int i = 0; i < 8; i++) {
        U64 x = vToU64(a[at + i]);
        if (x > 3) return false;
        v[i] = (int)x;
    }
    pc.nwq = v[0]; pc.nwr = v[1]; pc.nwb = v[2]; pc.nwn = v[3];
    pc.nbq = v[4]; pc.nbr = v[5]; pc.nbb = v[6]; pc.nbn = v[7];
    return pc.nPieces() <= 4;
}

/** Some position having exactly the material of pc (legality is irrelevant for updateTB). */
static void classPosition(const PieceCount& pc, Position& pos) {
    static const int sqs[] = { 11, 33, 52, 30, 27, 36 }; // nothing attacks a king from these squares
    int k = 0;
    pos.setPiece(Square(0), Piece::WKING);
    pos.setPiece(Square(63), Piece::BKING);
    for (int i = 0; i < pc.nwq; i++) pos.setPiece(Square(sqs[k++]), Piece::WQUEEN);
    for (int i = 0; i < pc.nwr; i++) pos.setPiece(Square(sqs[k++]), Piece::WROOK);
    for (int i = 0; i < pc.nwb; i++) pos.setPiece(Square(sqs[k++]), Piece::WBISHOP);
    for (int i = 0; i < pc.nwn; i++) pos.setPiece(Square(sqs[k++]), Piece::WKNIGHT);
    for (int i = 0; i < pc.nbq; i++) pos.setPiece(Square(sqs[k++]), Piece::BQUEEN);
    for (int i = 0; i < pc.nbr; i++) pos.setPiece(Square(sqs[k++]), Piece::BROOK);
    for (int i = 0; i < pc.nbb; i++) pos.setPiece(Square(sqs[k++]), Piece::BBISHOP);
    for (int i = 0; i < pc.nbn; i++) pos.setPiece(Square(sqs[k++]), Piece::BKNIGHT);
    pos.setWhiteMove(true);
}

static const size_t TT_ENTRIES = 1 << 19;   // 8 MB: the smallest power of two that updateTB accepts (needs 7 MB)

// ---- resident table used by `tb probe` ------------------------------------------------------
static PieceCount curPc;
static std::unique_ptr<VectorStorage> vecStore;
static std::unique_ptr<TBGenerator<VectorStorage>> vecGen;
static std::unique_ptr<TranspositionTable> ttab;
static int curKind = 0; // 0 none, 1 vec, 2 tt

static bool loadTable(const std::string& kind, const PieceCount& pc, U32& nPos) {
    RelaxedShared<S64> maxT(-1);
    TBPosition tp(pc);
    nPos = tp.nPositions();
    curPc = pc;
    vecGen.reset(); vecStore.reset(); ttab.reset(); curKind = 0;
    if (kind == "vec") {
        vecStore.reset(new VectorStorage);
        vecGen.reset(new TBGenerator<VectorStorage>(*vecStore, pc));
        if (!vecGen->generate(maxT, false)) return false;
        curKind = 1;
        return true;
    } else if (kind == "tt") {
        ttab.reset(new TranspositionTable(TT_ENTRIES));
        Position pos; classPosition(pc, pos);
        if (!ttab->updateTB(pos, maxT)) return false;
        curKind = 2;
        return true;
    }
    return false;
}

static U8 tableByte(U32 idx) {
    if (curKind == 1) return (U8)(*vecStore)[idx].getState();
    return (U8)ttab->ttStorage[idx].getState();
}

static std::string handle(const std::vector<std::string>& a) {
    if (a.empty()) return "bad-op";
    const std::string& op = a[0];
    size_t n = a.size();

    if (op == "tables" && n == 1) {
        std::ostringstream os;
        os << "sym";
        for (int i = 0; i < 64; i++) os << ' ' << TBIndex::symType[i];
        os << " kmap";
        for (int i = 0; i < 64; i++) os << ' ' << TBIndex::kingMap[i];
        os << " kinv";
        for (int i = 0; i < 10; i++) os << ' ' << TBIndex::kingMapInverse[i];
        return os.str();
    }

    if ((op == "gen" && n == 11) || (op == "load" && n == 10)) {
        PieceCount pc;
        if (!parseCounts(a, 2, pc)) return "bad-op";
        if (a[1] != "vec" && a[1] != "tt") return "bad-op";
        U32 nPos;
        if (!loadTable(a[1], pc, nPos)) return "gen-failed";
        if (op == "gen") {
            std::vector<char> buf(nPos);
            for (U32 i = 0; i < nPos; i++) buf[i] = (char)tableByte(i);
            std::ofstream os(a[10], std::ios::binary);
            os.write(buf.data(), buf.size());
            os.close();
            if (!os) return "write-failed";
        }
        return "ok " + std::to_string(nPos);
    }

    if (op == "sum" && n == 12) { // digest of getMoves / getUnMoves over an index range: tb sum <m|u> <counts> <lo> <hi>
        PieceCount pc;
        if (!parseCounts(a, 2, pc)) return "bad-op";
        if (a[1] != "m" && a[1] != "u") return "bad-op";
        TBPosition tp(pc);
        U64 lo = vToU64(a[10]), hi = vToU64(a[11]);
        if (lo > hi || hi > tp.nPositions()) return "bad-op";
        U64 h = 1469598103934665603ULL, legalCnt = 0, total = 0;
        auto mix = [&h](U64 x) { h = (h ^ x) * 1099511628211ULL; };
        for (U64 i = lo; i < hi; i++) {
            tp.setIndex((U32)i);
            if (!tp.indexValid()) { mix(0); continue; }
            tp.setIndex((U32)i);
            if (tp.canTakeKing()) { mix(1); continue; }
            TbMoveList lst;
            if (a[1] == "m") tp.getMoves(lst); else tp.getUnMoves(lst);
            mix(2); mix((U64)lst.getSize());
            for (int k = 0; k < lst.getSize(); k++) mix(lst[k]);
            legalCnt++; total += lst.getSize();
        }
        return "sum " + std::to_string(h) + " legal " + std::to_string(legalCnt) + " entries " + std::to_string(total);
    }

    if ((op == "idx" || op == "midx") && n == 10) { // per-index data of TBPosition: tb idx <counts> <i>
        PieceCount pc;
        if (!parseCounts(a, 1, pc)) return "bad-op";
        TBPosition tp(pc);
        U64 i = vToU64(a[9]);
        if (i >= tp.nPositions()) return "bad-op";
        tp.setIndex((U32)i);
        if (!tp.indexValid()) return "inv";
        if (tp.canTakeKing()) return "ctk";
        TbMoveList lst;
        tp.getMoves(lst);
        std::ostringstream os;
        os << "m";
        for (int k = 0; k < lst.getSize(); k++) os << ' ' << lst[k];
        return os.str();
    }

    if (op == "unidx" && n == 10) { // take-back moves of TBPosition: tb unidx <counts> <i>
        PieceCount pc;
        if (!parseCounts(a, 1, pc)) return "bad-op";
        TBPosition tp(pc);
        U64 i = vToU64(a[9]);
        if (i >= tp.nPositions()) return "bad-op";
        tp.setIndex((U32)i);
        if (!tp.indexValid()) return "inv";
        if (tp.canTakeKing()) return "ctk";
        TbMoveList lst;
        tp.getUnMoves(lst);
        std::ostringstream os;
        os << "u";
        for (int k = 0; k < lst.getSize(); k++) os << ' ' << lst[k];
        return os.str();
    }

    if (op == "probe" && n >= 4) { // tb probe <ply> <w|b> <castleMask> <code@sq>...
        if (!curKind) return "bad-op";
        int ply = (int)vToInt(a[1]);
        if (a[2] != "w" && a[2] != "b") return "bad-op";
        U64 castle = vToU64(a[3]);
        if (castle > 15 || ply < 0 || ply > 1000) return "bad-op";
        Position pos;
        int nk[2] = {0, 0};
        for (size_t i = 4; i < n; i++) {
            size_t at = a[i].find('@');
            if (at == std::string::npos) return "bad-op";
            U64 code = vToU64(a[i].substr(0, at)), sq = vToU64(a[i].substr(at + 1));
            if (code < 1 || code > 12 || sq > 63) return "bad-op";
            if (pos.getPiece(Square((int)sq)) != Piece::EMPTY) return "bad-op";
            if (code == Piece::WKING) nk[0]++;
            if (code == Piece::BKING) nk[1]++;
            pos.setPiece(Square((int)sq), (int)code);
        }
        if (nk[0] != 1 || nk[1] != 1) return "bad-op";
        pos.setWhiteMove(a[2] == "w");
        pos.setCastleMask((int)castle);
        TBPosition tp(curPc);
        std::ostringstream os;
        if (tp.setPosition(pos)) os << tp.getIndex(); else os << "none";
        int score = 0;
        bool hit = curKind == 1 ? vecGen->probeDTM(pos, ply, score) : ttab->probeDTM(pos, ply, score);
        if (hit) os << " hit " << score; else os << " miss";
        return os.str();
    }
    if (op == "legal" && n >= 4) { // tb legal <w|b> <code@sq>... : legal successors by Texel's ordinary move generator
        if (a[1] != "w" && a[1] != "b") return "bad-op";
        Position pos;
        int nk[2] = {0, 0};
        for (size_t i = 2; i < n; i++) {
            size_t at = a[i].find('@');
            if (at == std::string::npos) return "bad-op";
            U64 code = vToU64(a[i].substr(0, at)), sq = vToU64(a[i].substr(at + 1));
            if (code < 1 || code > 12 || code == 6 || code == 12 || sq > 63) return "bad-op";
            if (pos.getPiece(Square((int)sq)) != Piece::EMPTY) return "bad-op";
            if (code == Piece::WKING) nk[0]++;
            if (code == Piece::BKING) nk[1]++;
            pos.setPiece(Square((int)sq), (int)code);
        }
        if (nk[0] != 1 || nk[1] != 1 || n - 2 > 4) return "bad-op";
        pos.setWhiteMove(a[1] == "w");
        if (MoveGen::canTakeKing(pos)) return "illegal";
        MoveList moves;
        MoveGen::pseudoLegalMoves(pos, moves);
        MoveGen::removeIllegal(pos, moves);
        std::vector<std::string> succ;
        for (int i = 0; i < moves.size; i++) {
            UndoInfo ui;
            pos.makeMove(moves[i], ui);
            std::ostringstream ps;
            ps << (pos.isWhiteMove() ? 'w' : 'b');
            for (int sq = 0; sq < 64; sq++)
                if (pos.getPiece(Square(sq)) != Piece::EMPTY) ps << ',' << pos.getPiece(Square(sq)) << '@' << sq;
            succ.push_back(ps.str());
            pos.unMakeMove(moves[i], ui);
        }
        std::sort(succ.begin(), succ.end());
        std::ostringstream os;
        os << "chk=" << (MoveGen::inCheck(pos) ? 1 : 0) << " n=" << succ.size();
        for (auto& x : succ) os << ' ' << x;
        return os.str();
    }
    return "bad-op";
}
static VReg reg("tb", handle);

// ---- abort injection ---------------------------------------------------------------------------
// tbabort <counts> hook <phase> <n> <newMaxT> <ninserts> <nprobes> <seed>
// tbabort <counts> delay <micros> 0 0 <ninserts> <nprobes> <seed>      (a second thread stores 0 after the delay)
// reply: r1=<first updateTB> hits=<probeDTM hits after it>/<nprobes> r2short=<updateTB with 1 ms> r2full=<updateTB unlimited>
//        tableok=<resident table after r2full equals a freshly generated VectorStorage table>
static RelaxedShared<S64>* hookMaxT = nullptr;
static int hookPhase = 0, hookN = 0; static S64 hookNew = 0; static bool hookFired = false;
#ifdef TEXEL_VERIF
static void abortHook(int phase, int n) {
    if (phase == hookPhase && n == hookN && hookMaxT) { *hookMaxT = hookNew; hookFired = true; }
}
#endif

static void randomPlacement(const PieceCount& pc, Random& r, Position& pos) {
    std::vector<int> codes;
    codes.push_back(Piece::WKING); codes.push_back(Piece::BKING);
    for (int i = 0; i < pc.nwq; i++) codes.push_back(Piece::WQUEEN);
    for (int i = 0; i < pc.nwr; i++) codes.push_back(Piece::WROOK);
    for (int i = 0; i < pc.nwb; i++) codes.push_back(Piece::WBISHOP);
    for (int i = 0; i < pc.nwn; i++) codes.push_back(Piece::WKNIGHT);
    for (int i = 0; i < pc.nbq; i++) codes.push_back(Piece::BQUEEN);
    for (int i = 0; i < pc.nbr; i++) codes.push_back(Piece::BROOK);
    for (int i = 0; i < pc.nbb; i++) codes.push_back(Piece::BBISHOP);
    for (int i = 0; i < pc.nbn; i++) codes.push_back(Piece::BKNIGHT);
    for (int c : codes) {
        int sq;
        do { sq = r.nextInt(64); } while (pos.getPiece(Square(sq)) != Piece::EMPTY);
        pos.setPiece(Square(sq), c);
    }
    pos.setWhiteMove(r.nextInt(2) == 0);
}

static std::string abortOp(const std::vector<std::string>& a) {
    if (a.size() != 15) return "bad-op";
    PieceCount pc;
    if (!parseCounts(a, 0, pc)) return "bad-op";
    const std::string& mode = a[8];
    S64 p1 = vToInt(a[9]), p2 = vToInt(a[10]), p3 = vToInt(a[11]);
    U64 nIns = vToU64(a[12]), nProbes = vToU64(a[13]), seed = vToU64(a[14]);
    if (mode != "hook" && mode != "delay") return "bad-op";
    if (nIns > 100000000ULL || nProbes > 10000000ULL || p1 < 0 || p1 > 100000000) return "bad-op";

    TranspositionTable tt(TT_ENTRIES);
    Position pos; classPosition(pc, pos);
    RelaxedShared<S64> maxT(-1);
    bool r1;
    std::string fired = "-";
    if (mode == "hook") {
#ifdef TEXEL_VERIF
        hookMaxT = &maxT; hookPhase = (int)p1; hookN = (int)p2; hookNew = p3; hookFired = false;
        tbGenVerifHook = abortHook;
        r1 = tt.updateTB(pos, maxT);
        tbGenVerifHook = nullptr; hookMaxT = nullptr;
        fired = hookFired ? "1" : "0";
#else
        return "no-hook";
#endif
    } else {
        std::atomic<bool> done(false);
        std::thread th([&]() {
            auto t0 = std::chrono::steady_clock::now();
            while (!done.load() && std::chrono::steady_clock::now() - t0 < std::chrono::microseconds(p1))
                std::this_thread::yield();
            if (!done.load()) { maxT = 0; fired = "1"; } else fired = "0";
        });
        r1 = tt.updateTB(pos, maxT);
        done.store(true);
        th.join();
    }
    const bool usedFull1 = tt.usedSize == tt.tableSize;
    const bool present1 = tt.tbGen != nullptr;
    // ordinary hash traffic
    Random r(seed);
    for (U64 i = 0; i < nIns; i++) {
        U64 key = r.nextU64();
        Move m(Square((int)(key & 63)), Square((int)((key >> 6) & 63)), Piece::EMPTY, (int)((key >> 12) % 2001) - 1000);
        tt.insert(key, m, 1 + (int)((key >> 30) % 3), (int)((key >> 34) % 20), (int)((key >> 40) % 30), (int)((key >> 48) % 2001) - 1000);
    }
    // probes
    U64 hits = 0;
    for (U64 i = 0; i < nProbes; i++) {
        Position p; randomPlacement(pc, r, p);
        int score;
        if (tt.probeDTM(p, 0, score)) hits++;
    }
    RelaxedShared<S64> shortT(1);
    bool r2short = tt.updateTB(pos, shortT);
    RelaxedShared<S64> inf(-1);
    bool r2full = tt.updateTB(pos, inf);
    bool tableOk = false;
    if (r2full && tt.tbGen) {
        VectorStorage vs; TBGenerator<VectorStorage> g(vs, pc);
        g.generate(inf, false);
        TBPosition tp(pc);
        tableOk = true;
        for (U32 i = 0; i < tp.nPositions(); i++)
            if (vs[i].getState() != tt.ttStorage[i].getState()) { tableOk = false; break; }
    }
    std::ostringstream os;
    os << "fired=" << fired << " r1=" << r1 << " hits=" << hits << '/' << nProbes << " r2short=" << r2short
       << " r2full=" << r2full << " tableok=" << tableOk << " after1=" << (present1 ? "gen" : "nogen") << ',' << (usedFull1 ? "full" : "reduced");
    return os.str();
}
static VReg regAbort("tbabort", abortOp);

// ---- histories of updateTB / unsuitable roots / hash stores / clear (tie for TB/Abort.lean) ------------------
// tbseq ev...   ev = u:<8 digits>:f | u:<8 digits>:t | u:<8 digits>:a:<phase>:<n> | x | s:<count> | c
// reply per event: <ret>,<tbGen present>,<usedSize reduced>,<ok>   ok = not present, or the resident bytes equal a
// table freshly generated with VectorStorage for the generator's material (the property's predicate)
#include <map>
static std::map<std::string, std::vector<U8>>& refTables() { static std::map<std::string, std::vector<U8>> m; return m; }
static const std::vector<U8>& refTable(const PieceCount& pc) {
    std::ostringstream k;
    k << pc.nwq << pc.nwr << pc.nwb << pc.nwn << pc.nbq << pc.nbr << pc.nbb << pc.nbn;
    auto it = refTables().find(k.str());
    if (it != refTables().end()) return it->second;
    VectorStorage vs; TBGenerator<VectorStorage> g(vs, pc);
    RelaxedShared<S64> inf(-1);
    g.generate(inf, false);
    TBPosition tp(pc);
    std::vector<U8> v(tp.nPositions());
    for (U32 i = 0; i < tp.nPositions(); i++) v[i] = (U8)vs[i].getState();
    return refTables()[k.str()] = v;
}
static bool parseDigits(const std::string& s, PieceCount& pc) {
    if (s.size() != 8) return false;
    std::vector<std::string> a;
    for (char c : s) { if (c < '0' || c > '9') return false; a.push_back(std::string(1, c)); }
    return parseCounts(a, 0, pc);
}
static std::string seqOp(const std::vector<std::string>& a) {
    TranspositionTable tt(TT_ENTRIES);
    Random rnd(12345);
    std::ostringstream os;
    for (size_t e = 0; e < a.size(); e++) {
        std::vector<std::string> f;
        { std::istringstream is(a[e]); std::string t; while (std::getline(is, t, ':')) f.push_back(t); }
        bool ret = true;
        if (f.empty()) return "bad-op";
        if (f[0] == "u" && f.size() >= 3) {
            PieceCount pc;
            if (!parseDigits(f[1], pc)) return "bad-op";
            Position pos; classPosition(pc, pos);
            if (f[2] == "f" && f.size() == 3) {
                RelaxedShared<S64> maxT(-1);
                ret = tt.updateTB(pos, maxT);
            } else if (f[2] == "t" && f.size() == 3) {
                RelaxedShared<S64> maxT(1);
                ret = tt.updateTB(pos, maxT);
            } else if (f[2] == "a" && f.size() == 5) {
#ifdef TEXEL_VERIF
                RelaxedShared<S64> maxT(-1);
                hookMaxT = &maxT; hookPhase = (int)vToU64(f[3]); hookN = (int)vToU64(f[4]); hookNew = 0; hookFired = false;
                tbGenVerifHook = abortHook;
                ret = tt.updateTB(pos, maxT);
                tbGenVerifHook = nullptr; hookMaxT = nullptr;
#else
                return "no-hook";
#endif
            } else return "bad-op";
        } else if (f[0] == "x" && f.size() == 1) {
            PieceCount pc; pc.nwq = 1; pc.nwr = pc.nwb = pc.nwn = pc.nbq = pc.nbr = pc.nbb = pc.nbn = 0;
            Position pos; classPosition(pc, pos);
            pos.setPiece(Square(12), Piece::WPAWN);
            RelaxedShared<S64> maxT(-1);
            ret = tt.updateTB(pos, maxT);
        } else if (f[0] == "s" && f.size() == 2) {
            U64 cnt = vToU64(f[1]);
            if (cnt > 50000000ULL) return "bad-op";
            for (U64 i = 0; i < cnt; i++) {
                U64 key = rnd.nextU64();
                Move m(Square((int)(key & 63)), Square((int)((key >> 6) & 63)), Piece::EMPTY, (int)((key >> 12) % 2001) - 1000);
                tt.insert(key, m, 1 + (int)((key >> 30) % 3), (int)((key >> 34) % 20), (int)((key >> 40) % 30), (int)((key >> 48) % 2001) - 1000);
            }
        } else if (f[0] == "c" && f.size() == 1) {
            tt.clear();
        } else return "bad-op";
        bool present = tt.tbGen != nullptr;
        bool reduced = tt.usedSize != tt.tableSize;
        bool ok = true;
        if (present) {
            const std::vector<U8>& ref = refTable(tt.tbGen->pieceCount);
            for (size_t i = 0; i < ref.size(); i++)
                if ((U8)tt.ttStorage[(U32)i].getState() != ref[i]) { ok = false; break; }
        }
        if (e) os << ' ';
        os << ret << ',' << present << ',' << reduced << ',' << ok;
    }
    return os.str();
}
static VReg regSeq("tbseq", seqOp);
