// C15: RevMoveGen::genMoves through the line protocol.
//   rev gen  <all:0|1> <fen>        sorted canonical list of un-moves  "n=<k> uci:cap:castle:ep ..."
//   rev chk  <all:0|1> <fen>        consistency predicate evaluated on the implementation's own list
//   rev tri  <uci> <fen of P>       completeness predicate for the triple (P, m, Q = makeMove + fixupEPSquare), both modes
//   rev game <seed> <plies> <fen>   input generator: random legal game biased to castling / e.p. / promotions / right-losing moves
#include <memory>
#include <vector>
#include <string>
#include <sstream>
#include <algorithm>
#include <set>
#define private public
#define protected public
#include "position.hpp"
#include "moveGen.hpp"
#include "textio.hpp"
#include "revmovegen.hpp"
#undef private
#undef protected
#include "random.hpp"
#include "harness.hpp"

std::string vFenErrClass(const std::string& msg);
std::string vFenOf(const std::vector<std::string>& a, size_t from, size_t to);

static std::string sqStr(Square s) { return s.isValid() ? TextIO::squareToString(s) : std::string("-"); }

static std::string tok(const Move& m, int cap, int castle, Square ep) {
    std::ostringstream os;
    os << TextIO::moveToUCIString(m) << ':' << cap << ':' << castle << ':' << sqStr(ep);
    return os.str();
}
static std::string tok(const UnMove& u) { return tok(u.move, u.ui.capturedPiece, u.ui.castleMask, u.ui.epSquare); }

static bool samePos(const Position& a, const Position& b) {
    for (int i = 0; i < 64; i++)
        if (a.getPiece(Square(i)) != b.getPiece(Square(i))) return false;
    return a.isWhiteMove() == b.isWhiteMove() && a.getCastleMask() == b.getCastleMask() &&
           a.getEpSquare() == b.getEpSquare();
}

static bool legalIn(Position& pos, const Move& m) {
    MoveList ml; MoveGen::pseudoLegalMoves(pos, ml); MoveGen::removeIllegal(pos, ml);
    for (int i = 0; i < ml.size; i++) if (ml[i] == m) return true;
    return false;
}

static std::string moveKind(const Position& P, const Move& m) {
    int p = P.getPiece(m.from()), c = P.getPiece(m.to());
    bool pawn = p == Piece::WPAWN || p == Piece::BPAWN;
    bool king = p == Piece::WKING || p == Piece::BKING;
    std::string k;
    int d = m.to().asInt() - m.from().asInt();
    if (king && (d == 2 || d == -2)) k = d == 2 ? "castle-short" : "castle-long";
    else if (pawn && m.to() == P.getEpSquare()) k = "ep-capture";
    else if (m.promoteTo() != Piece::EMPTY) k = c != Piece::EMPTY ? "promo-capture" : "promo";
    else if (pawn && (d == 16 || d == -16)) k = "double-push";
    else if (c != Piece::EMPTY) k = "capture";
    else k = "quiet";
    Position t(P); UndoInfo ui; t.makeMove(m, ui);
    if (t.getCastleMask() != P.getCastleMask() && !(king && (d == 2 || d == -2))) {
        if (king) k += "+king-loses-rights";
        else if (p == Piece::WROOK || p == Piece::BROOK) k += (c == Piece::WROOK || c == Piece::BROOK) ? "+rook-takes-rook-rights" : "+rook-loses-rights";
        else k += "+rook-captured-rights";
    }
    if (P.getEpSquare().isValid() && !(pawn && m.to() == P.getEpSquare())) k += "+ep-unused";
    return k;
}

static std::string handle(const std::vector<std::string>& a) {
    if (a.empty()) return "bad-op";
    const std::string& op = a[0];
    try {
        if (op == "gen" && a.size() >= 3 && (a[1] == "0" || a[1] == "1")) {
            Position pos = TextIO::readFEN(vFenOf(a, 2, a.size()));
            std::vector<UnMove> ums;
            RevMoveGen::genMoves(pos, ums, a[1] == "1");
            std::vector<std::string> v;
            for (const UnMove& u : ums) v.push_back(tok(u));
            std::sort(v.begin(), v.end());
            return "n=" + std::to_string(v.size()) + (v.empty() ? "" : " ") + vJoin(v);
        }
        if (op == "chk" && a.size() >= 3 && (a[1] == "0" || a[1] == "1")) {
            Position Q = TextIO::readFEN(vFenOf(a, 2, a.size()));
            std::vector<UnMove> ums;
            RevMoveGen::genMoves(Q, ums, a[1] == "1");
            std::set<std::string> seen;
            for (const UnMove& u : ums) {
                std::string t = tok(u);
                if (!seen.insert(t).second) return "fail duplicate " + t;
                if (u.ui.halfMoveClock != 0) return "fail halfmove-clock-not-zero " + t;
                Position P(Q);
                P.unMakeMove(u.move, u.ui);
                // the restored position is one the FEN reader accepts unchanged (one king each, no pawn on the
                // first/last rank, side not to move not in check, castling flags with king and rook at home,
                // en-passant square only if the capture is legal)
                P.setHalfMoveClock(0); P.setFullMoveCounter(1);
                std::string fenP = TextIO::toFEN(P);
                try {
                    Position R = TextIO::readFEN(fenP);
                    if (!samePos(R, P)) return "fail predecessor-not-a-normal-position " + t + " P " + fenP;
                } catch (const ChessParseError& e) {
                    return "fail predecessor-rejected-by-reader:" + vFenErrClass(e.what()) + " " + t + " P " + fenP;
                }
                if (!legalIn(P, u.move)) return "fail move-not-legal-in-predecessor " + t + " P " + fenP;
                Position Q2(P); UndoInfo ui2;
                Q2.makeMove(u.move, ui2);
                TextIO::fixupEPSquare(Q2);
                if (!samePos(Q2, Q)) return "fail does-not-lead-back " + t + " P " + fenP;
                if (ui2.capturedPiece != u.ui.capturedPiece || ui2.castleMask != u.ui.castleMask || ui2.epSquare != u.ui.epSquare)
                    return "fail undo-info-differs " + t + " P " + fenP;
            }
            return "ok n=" + std::to_string(ums.size());
        }
        if (op == "pre" && a.size() >= 3) {
            // predecessor position of one un-move "uci:cap:castle:ep" (tie of Chess.unmake to Position::unMakeMove)
            Position Q = TextIO::readFEN(vFenOf(a, 2, a.size()));
            std::vector<std::string> f;
            { std::istringstream is(a[1]); std::string t; while (std::getline(is, t, ':')) f.push_back(t); }
            if (f.size() != 4 || (f[0].size() != 4 && f[0].size() != 5)) return "bad-op";
            Move m = TextIO::uciStringToMove(f[0]);
            if (m.isEmpty() || m.from() == m.to()) return "bad-op";
            int cap = (int)vToU64(f[1]), castle = (int)vToU64(f[2]);
            if (cap > 12 || castle > 15) return "bad-op";
            Square ep(-1);
            if (f[3] != "-") {
                if (f[3].size() != 2 || f[3][0] < 'a' || f[3][0] > 'h' || f[3][1] < '1' || f[3][1] > '8') return "bad-op";
                ep = Square(f[3][0] - 'a', f[3][1] - '1');
            }
            UndoInfo ui { cap, castle, ep, 0 };
            Position P(Q);
            P.unMakeMove(m, ui);
            P.setHalfMoveClock(0); P.setFullMoveCounter(1);
            return TextIO::toFEN(P);
        }
        if (op == "tri" && a.size() >= 3) {
            Position P = TextIO::readFEN(vFenOf(a, 2, a.size()));
            Move m = TextIO::uciStringToMove(a[1]);
            if (!legalIn(P, m)) return "bad-op";
            std::string kind = moveKind(P, m);
            Position Q(P); UndoInfo ui;
            Q.makeMove(m, ui);
            TextIO::fixupEPSquare(Q);
            int pc = P.getPiece(m.from());
            bool isEp = (pc == Piece::WPAWN || pc == Piece::BPAWN) && m.to() == P.getEpSquare();
            std::string fenQ = TextIO::toFEN(Q);
            for (int all = 1; all >= 0; all--) {
                std::string want = tok(m, ui.capturedPiece, ui.castleMask, (all || isEp) ? ui.epSquare : Square(-1));
                std::vector<UnMove> ums;
                RevMoveGen::genMoves(Q, ums, all != 0);
                bool found = false;
                for (const UnMove& u : ums) if (tok(u) == want) { found = true; break; }
                if (!found) return "missing mode=" + std::to_string(all) + " " + want + " Q " + fenQ;
            }
            return "ok kind=" + kind + " Q " + fenQ;
        }
        if (op == "game" && a.size() >= 4) {
            U64 seed = vToU64(a[1]); int plies = (int)vToU64(a[2]);
            Position pos = TextIO::readFEN(vFenOf(a, 3, a.size()));
            Random rnd(seed);
            std::string out = TextIO::toFEN(pos);
            for (int i = 0; i < plies; i++) {
                MoveList ml; MoveGen::pseudoLegalMoves(pos, ml); MoveGen::removeIllegal(pos, ml);
                if (ml.size == 0 || pos.getHalfMoveClock() >= 100) break;
                // weights: rare move kinds are preferred so that they occur often
                std::vector<int> w(ml.size);
                int tot = 0;
                for (int j = 0; j < ml.size; j++) {
                    const Move& m = ml[j];
                    int p = pos.getPiece(m.from()), c = pos.getPiece(m.to());
                    int d = m.to().asInt() - m.from().asInt();
                    bool pawn = p == Piece::WPAWN || p == Piece::BPAWN, king = p == Piece::WKING || p == Piece::BKING;
                    int wt = 4;
                    if (king && (d == 2 || d == -2)) wt = 60;
                    else if (pawn && m.to() == pos.getEpSquare()) wt = 80;
                    else if (m.promoteTo() != Piece::EMPTY) wt = c != Piece::EMPTY ? 12 : 6;
                    else if (pawn && (d == 16 || d == -16)) wt = 10;
                    else if (c != Piece::EMPTY) wt = 8;
                    int keep = pos.getCastleMask() & Position::castleSqMask[m.from()] & Position::castleSqMask[m.to()];
                    if (keep != pos.getCastleMask() && !(king && (d == 2 || d == -2))) wt = king ? 3 : 12;
                    else if (king && pos.getCastleMask() == 0) wt = 3;
                    w[j] = wt; tot += wt;
                }
                int r = rnd.nextInt(tot), k = 0;
                while (r >= w[k]) { r -= w[k]; k++; }
                UndoInfo ui; pos.makeMove(ml[k], ui);
                TextIO::fixupEPSquare(pos);
                out += " ; " + TextIO::moveToUCIString(ml[k]) + " " + TextIO::toFEN(pos);
            }
            return out;
        }
    } catch (const ChessParseError& e) {
        return "err " + vFenErrClass(e.what());
    }
    return "bad-op";
}
static VReg reg("rev", handle);
