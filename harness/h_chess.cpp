// C01 / C02 / C17 substrate: MoveGen, Position, TextIO through the line protocol
#include <memory>
#include <vector>
#include <string>
#include <sstream>
#include <algorithm>
#include <map>
#define private public
#define protected public
#include "position.hpp"
#include "moveGen.hpp"
#include "textio.hpp"
#include "bitBoard.hpp"
#undef private
#undef protected
#include "random.hpp"
#include "transpositionTable.hpp"
#include "harness.hpp"

std::string vFenErrClass(const std::string& msg) {
    static const std::map<std::string, std::string> m = {
        {"Too many rows", "too-many-rows"}, {"Too many columns", "too-many-cols"},
        {"Pawn on first/last rank", "pawn-rank"}, {"Invalid piece", "invalid-piece"},
        {"Invalid side", "invalid-side"}, {"Invalid castling flags", "invalid-castle"},
        {"Invalid en passant square", "invalid-ep"}, {"White must have exactly one king", "white-kings"},
        {"Black must have exactly one king", "black-kings"}, {"King capture possible", "king-capture"}};
    auto it = m.find(msg);
    return it == m.end() ? "other:" + msg : it->second;
}

std::string vFenOf(const std::vector<std::string>& a, size_t from, size_t to) {
    std::string s;
    for (size_t i = from; i < to && i < a.size(); i++) { if (i > from) s += ' '; s += a[i]; }
    return s;
}

static std::string mvs(const MoveList& ml) {
    std::vector<std::string> v;
    for (int i = 0; i < ml.size; i++) v.push_back(TextIO::moveToUCIString(ml[i]));
    return vJoin(v);
}

static std::string handle(const std::vector<std::string>& a) {
    if (a.empty()) return "bad-op";
    const std::string& op = a[0];
    try {
        if (op == "fen") {
            Position pos = TextIO::readFEN(vFenOf(a, 1, a.size()));
            return "ok " + TextIO::toFEN(pos);
        }
        if (op == "legal") {
            Position pos = TextIO::readFEN(vFenOf(a, 1, a.size()));
            MoveList ml; MoveGen::pseudoLegalMoves(pos, ml); MoveGen::removeIllegal(pos, ml);
            std::vector<std::string> v;
            for (int i = 0; i < ml.size; i++) v.push_back(TextIO::moveToUCIString(ml[i]));
            std::sort(v.begin(), v.end());
            return std::string(MoveGen::inCheck(pos) ? "1 " : "0 ") + vJoin(v);
        }
        if (op == "perft" && a.size() >= 3) {
            int d = (int)vToU64(a[1]);
            Position pos = TextIO::readFEN(vFenOf(a, 2, a.size()));
            struct P { static U64 run(Position& pos, int d) {
                if (d == 0) return 1;
                MoveList ml; MoveGen::pseudoLegalMoves(pos, ml); MoveGen::removeIllegal(pos, ml);
                if (d == 1) return ml.size;
                U64 n = 0; UndoInfo ui;
                for (int i = 0; i < ml.size; i++) { pos.makeMove(ml[i], ui); n += run(pos, d - 1); pos.unMakeMove(ml[i], ui); }
                return n; } };
            return std::to_string(P::run(pos, d));
        }
        if (op == "mg") {
            Position pos = TextIO::readFEN(vFenOf(a, 1, a.size()));
            bool inChk = MoveGen::inCheck(pos);
            MoveList ps; MoveGen::pseudoLegalMoves(pos, ps);
            std::string L, G;
            for (int i = 0; i < ps.size; i++) {
                L += MoveGen::isLegal(pos, ps[i], inChk) ? '1' : '0';
                G += MoveGen::givesCheck(pos, ps[i]) ? '1' : '0';
            }
            if (ps.size == 0) { L = "-"; G = "-"; }
            MoveList rm; MoveGen::pseudoLegalMoves(pos, rm); MoveGen::removeIllegal(pos, rm);
            MoveList ev; if (inChk) MoveGen::checkEvasions(pos, ev);
            MoveList cp; MoveGen::pseudoLegalCaptures(pos, cp);
            MoveList cc; MoveGen::pseudoLegalCapturesAndChecks(pos, cc);
            std::ostringstream os;
            os << (inChk ? 1 : 0) << " P " << mvs(ps) << " L " << L << " G " << G << " R " << mvs(rm)
               << " E " << mvs(ev) << " C " << mvs(cp) << " K " << mvs(cc);
            // normalise double spaces from empty lists
            std::string s = os.str(), t;
            for (char c : s) if (!(c == ' ' && !t.empty() && t.back() == ' ')) t += c;
            while (!t.empty() && t.back() == ' ') t.pop_back();
            return t;
        }
        if (op == "tmg") {
            // differential against the Lean model of the generator (Chess/TexelGen.lean): lists in generation order
            Position pos = TextIO::readFEN(vFenOf(a, 1, a.size()));
            bool inChk = MoveGen::inCheck(pos);
            MoveList ps; MoveGen::pseudoLegalMoves(pos, ps);
            std::string L, G;
            for (int i = 0; i < ps.size; i++) {
                L += MoveGen::isLegal(pos, ps[i], inChk) ? '1' : '0';
                G += MoveGen::givesCheck(pos, ps[i]) ? '1' : '0';
            }
            if (ps.size == 0) { L = "-"; G = "-"; }
            MoveList rm; MoveGen::pseudoLegalMoves(pos, rm); MoveGen::removeIllegal(pos, rm);
            MoveList ev; if (inChk) MoveGen::checkEvasions(pos, ev);
            MoveList cp; MoveGen::pseudoLegalCaptures(pos, cp);
            MoveList cc; MoveGen::pseudoLegalCapturesAndChecks(pos, cc);
            std::ostringstream os;
            os << (inChk ? 1 : 0) << " P " << mvs(ps) << " L " << L << " G " << G << " R " << mvs(rm)
               << " E " << mvs(ev) << " C " << mvs(cp) << " K " << mvs(cc);
            std::string s = os.str(), t;
            for (char c : s) if (!(c == ' ' && !t.empty() && t.back() == ' ')) t += c;
            while (!t.empty() && t.back() == ' ') t.pop_back();
            return t;
        }
        if (op == "imask" && a.size() == 3) {
            U64 pc = vToU64(a[1]), s = vToU64(a[2]);
            if (s > 63 || (pc != 3 && pc != 4)) return "bad-op";
            return vHex(pc == 3 ? BitBoard::rMasks[Square((int)s)] : BitBoard::bMasks[Square((int)s)]);
        }
        if (op == "gengame" && a.size() >= 4) {
            // random legal game: prints the FEN of every position reached (input generator, not part of a diff)
            U64 seed = vToU64(a[1]); int plies = (int)vToU64(a[2]);
            Position pos = TextIO::readFEN(vFenOf(a, 3, a.size()));
            Random rnd(seed);
            std::string out;
            for (int i = 0; i < plies; i++) {
                MoveList ml; MoveGen::pseudoLegalMoves(pos, ml); MoveGen::removeIllegal(pos, ml);
                if (ml.size == 0 || pos.getHalfMoveClock() >= 100) break;
                // bias towards captures/promotions/castling a little so that games stay varied
                int k = rnd.nextInt(ml.size);
                for (int t = 0; t < 2; t++) {
                    int j = rnd.nextInt(ml.size);
                    if (pos.getPiece(ml[j].to()) != Piece::EMPTY || ml[j].promoteTo() != Piece::EMPTY) k = j;
                }
                UndoInfo ui; pos.makeMove(ml[k], ui);
                TextIO::fixupEPSquare(pos);
                if (!out.empty()) out += " ; ";
                out += TextIO::toFEN(pos);
            }
            return out.empty() ? "none" : out;
        }
        if (op == "ttpv" && a.size() >= 3) {
            // C03: PV extraction under adversarial table contents.  Plants a chain of hash moves (legal ones, moves that are
            // only pseudo-legal, garbage) along a line and returns what TranspositionTable::extractPVMoves makes of it.
            U64 seed = vToU64(a[1]);
            Position root = TextIO::readFEN(vFenOf(a, 2, a.size()));
            Random rnd(seed);
            MoveList rl; MoveGen::pseudoLegalMoves(root, rl); MoveGen::removeIllegal(root, rl);
            if (rl.size == 0) return "none";
            Move first = rl[rnd.nextInt(rl.size)];
            TranspositionTable tt(1 << 12);
            Position pos(root);
            UndoInfo ui;
            pos.makeMove(first, ui);
            for (int step = 0; step < 12; step++) {
                MoveList ps; MoveGen::pseudoLegalMoves(pos, ps);
                bool inChk = MoveGen::inCheck(pos);
                std::vector<Move> legal, illegal;
                for (int i = 0; i < ps.size; i++)
                    (MoveGen::isLegal(pos, ps[i], inChk) ? legal : illegal).push_back(ps[i]);
                Move m; bool cont = false;
                int r = rnd.nextInt(100);
                if (!illegal.empty() && r < 40) m = illegal[rnd.nextInt((int)illegal.size())];
                else if (r < 55) m = Move(Square(rnd.nextInt(64)), Square(rnd.nextInt(64)), rnd.nextInt(3) == 0 ? rnd.nextInt(13) : 0);
                else if (!legal.empty()) { m = legal[rnd.nextInt((int)legal.size())]; cont = true; }
                else break;
                m.setScore(rnd.nextInt(200) - 100);
                tt.insert(pos.historyHash(), m, TType::T_EXACT, step + 1, 5, 0);
                if (!cont) break;
                pos.makeMove(m, ui);
            }
            std::vector<Move> pv;
            tt.extractPVMoves(root, first, pv);
            std::vector<std::string> v;
            for (const Move& m : pv) v.push_back(TextIO::moveToUCIString(m));
            return "pv " + vJoin(v);
        }
        if ((op == "atk" || op == "tatk") && a.size() == 4) {
            U64 pc = vToU64(a[1]), s = vToU64(a[2]), occ = vToU64(a[3]);
            if (pc < 1 || pc > 12 || s > 63) return "bad-op";
            Square sq((int)s);
            U64 r = 0;
            switch (pc) {
            case Piece::WKING: case Piece::BKING: r = BitBoard::kingAttacks(sq); break;
            case Piece::WQUEEN: case Piece::BQUEEN: r = BitBoard::rookAttacks(sq, occ) | BitBoard::bishopAttacks(sq, occ); break;
            case Piece::WROOK: case Piece::BROOK: r = BitBoard::rookAttacks(sq, occ); break;
            case Piece::WBISHOP: case Piece::BBISHOP: r = BitBoard::bishopAttacks(sq, occ); break;
            case Piece::WKNIGHT: case Piece::BKNIGHT: r = BitBoard::knightAttacks(sq); break;
            case Piece::WPAWN: r = BitBoard::wPawnAttacks(sq); break;
            case Piece::BPAWN: r = BitBoard::bPawnAttacks(sq); break;
            }
            return vHex(r);
        }
        if (op == "dir" && a.size() == 3) {
            U64 x = vToU64(a[1]), y = vToU64(a[2]);
            if (x > 63 || y > 63) return "bad-op";
            return std::to_string(BitBoard::getDirection(Square((int)x), Square((int)y)));
        }
        if (op == "between" && a.size() == 3) {
            U64 x = vToU64(a[1]), y = vToU64(a[2]);
            if (x > 63 || y > 63) return "bad-op";
            return vHex(BitBoard::squaresBetween(Square((int)x), Square((int)y)));
        }
    } catch (const ChessParseError& e) {
        return "err " + vFenErrClass(e.what());
    }
    return "bad-op";
}
static VReg reg("chess", handle);
