// C19: BookBuild::Book through the line protocol.
// The class below carries the name that bookbuild.hpp declares as a friend (`friend class ::BookBuildTest`),
// which is how the stock tests reach Book's private members; the harness does not link the test sources.
//
//  bookgen ...   "elaboration" pass (implementation only): ops address nodes by creation index and pick chess
//                moves by number; the reply is the explicit `book ...` line (hash keys, compressed moves, the
//                parent/child links the chess rules produce) that pass 2 feeds to BOTH the C++ and the Lean model.
//  book ...      differential pass: the reply lists every node whose fields changed since the previous reply
//                (sorted by hash key), `book dump` lists all nodes.
#include <memory>
#include <vector>
#include <string>
#include <sstream>
#include <iostream>
#include <fstream>
#include <algorithm>
#include <map>
#include <set>
#include <cstdio>
#include <cstdlib>
#include <functional>
#include <unistd.h>
#include "bookbuild.hpp"
#include "gametree.hpp"
#include "moveGen.hpp"
#include "textio.hpp"
#include "harness.hpp"

using namespace BookBuild;

struct Snap {
    int depth, mv, search; unsigned time; int nm, ew, eb, pw, pb; size_t np, nc; bool pend;
    bool operator==(const Snap& o) const {
        return depth == o.depth && mv == o.mv && search == o.search && time == o.time && nm == o.nm && ew == o.ew &&
               eb == o.eb && pw == o.pw && pb == o.pb && np == o.np && nc == o.nc && pend == o.pend;
    }
};

struct BookSession {
    std::unique_ptr<Book> book;
    std::vector<U64> order;            // creation order (root first)
    std::vector<U64> pendList;         // elaboration pass: keys currently pending
    std::map<U64, Snap> prev;          // differential pass: last reported state
    int reloads = 0;                   // differential pass: every second `reload` reads the append-only backup file instead
};

/** The differential pass gives its Book a backup file (Book::writeBackup appends a record for every node created and,
 *  as the extendBook loop does, for every committed search result); "the backup file is a valid book file at all times". */
static const std::string& backupPath() {
    static std::string path;
    if (path.empty()) {
        char name[] = "/tmp/vbookbakXXXXXX";
        int fd = mkstemp(name);
        if (fd >= 0) { close(fd); path = name; std::atexit([]{ std::remove(backupPath().c_str()); }); }
    }
    return path;
}

static std::string linkStr(const std::vector<std::pair<int, U64>>& v) {
    std::string r;
    for (size_t i = 0; i < v.size(); i++) {
        if (i) r += ',';
        r += std::to_string(v[i].first) + "-" + vHex(v[i].second);
    }
    return r;
}

static bool parseLinks(const std::string& s, std::vector<std::pair<int, U64>>& out) {
    out.clear();
    if (s == "-") return true;
    std::stringstream ss(s);
    std::string item;
    while (std::getline(ss, item, ',')) {
        size_t d = item.find('-');
        if (d == std::string::npos) return false;
        out.emplace_back((int)vToInt(item.substr(0, d)), vToU64(item.substr(d + 1)));
    }
    std::sort(out.begin(), out.end());
    return true;
}

class BookBuildTest {
public:
    static BookNode* node(Book& b, U64 key) { return b.getBookNode(key); }
    static size_t size(Book& b) { return b.bookNodes.size(); }
    static bool position(Book& b, U64 key, Position& pos) {
        std::vector<Move> ml;
        if (!b.getBookNode(key)) return false;
        return b.getPosition(key, pos, ml);
    }
    static void addPos(Book& b, Position& pos, const Move& m) {
        std::vector<U64> toSearch;
        b.addPosToBook(pos, m, toSearch);
    }
    static void addPending(Book& b, U64 key) { b.addPending(key); }
    static void removePending(Book& b, U64 key) { b.removePending(key); }
    static bool isPending(Book& b, U64 key) { return b.bookData.isPending(key); }
    static void setSearch(Book& b, U64 key, int cmove, int score, int time) {
        Move m; m.setFromCompressed((U16)cmove);
        b.getBookNode(key)->setSearchResult(b.bookData, m, score, time);
        b.writeBackup(*b.getBookNode(key));                 // as Book::extendBook does right after setSearchResult
    }
    static void update(Book& b, U64 key) { b.getBookNode(key)->updateScores(b.bookData); }
    static std::vector<U64> keys(Book& b) {
        std::vector<U64> k;
        for (auto& e : b.bookNodes) k.push_back(e.first);
        std::sort(k.begin(), k.end());
        return k;
    }
    static U64 rootKey(Book& b) { return b.startPosHash; }
    /** Number of book nodes known (through Book::hashToParent) to have a legal move to the position `childHash`. */
    static int knownParents(Book& b, U64 childHash) {
        std::size_t bucket = b.hashToParent.bucket(Book::H2P(childHash, 0));
        int n = 0;
        for (auto p = b.hashToParent.begin(bucket); p != b.hashToParent.end(bucket); ++p)
            if (p->childHash == childHash) n++;
        return n;
    }
};

static std::vector<std::pair<int, U64>> parentsOf(const BookNode* n) {
    std::vector<std::pair<int, U64>> v;
    for (auto& p : n->getParents()) v.emplace_back((int)p.compressedMove, p.parent->getHashKey());
    std::sort(v.begin(), v.end());
    return v;
}
static std::vector<std::pair<int, U64>> childrenOf(const BookNode* n) {
    std::vector<std::pair<int, U64>> v;
    for (auto& c : n->getChildren()) v.emplace_back((int)c.first, c.second->getHashKey());
    std::sort(v.begin(), v.end());
    return v;
}

static Snap snapOf(Book& b, const BookNode* n) {
    Snap s;
    s.depth = n->getDepth(); s.mv = n->getBestNonBookMove().getCompressedMove(); s.search = n->getSearchScore();
    s.time = n->getSearchTime(); s.nm = n->getNegaMaxScore(); s.ew = n->getExpansionCostWhite();
    s.eb = n->getExpansionCostBlack(); s.pw = n->getPathErrorWhite(); s.pb = n->getPathErrorBlack();
    s.np = n->getParents().size(); s.nc = n->getChildren().size(); s.pend = BookBuildTest::isPending(b, n->getHashKey());
    return s;
}

static std::string recOf(Book& b, const BookNode* n) {
    std::ostringstream os;
    Snap s = snapOf(b, n);
    os << vHex(n->getHashKey()) << ' ' << s.depth << ' ' << s.mv << ' ' << s.search << ' ' << s.time << ' ' << s.nm << ' '
       << s.ew << ' ' << s.eb << ' ' << s.pw << ' ' << s.pb << ' ' << (s.pend ? 1 : 0)
       << " P:" << linkStr(parentsOf(n)) << " C:" << linkStr(childrenOf(n));
    return os.str();
}

/** Reply of the differential pass: every node whose observable fields changed since the last reply. */
static std::string diffReply(BookSession& S, bool full) {
    std::ostringstream os;
    std::vector<U64> ks = BookBuildTest::keys(*S.book);
    std::vector<std::string> recs;
    std::map<U64, Snap> cur;
    for (U64 k : ks) {
        const BookNode* n = BookBuildTest::node(*S.book, k);
        Snap s = snapOf(*S.book, n);
        auto it = S.prev.find(k);
        if (full || it == S.prev.end() || !(it->second == s))
            recs.push_back(recOf(*S.book, n));
        cur[k] = s;
    }
    S.prev.swap(cur);
    os << (full ? "dump" : "ok") << " n=" << ks.size() << " c=" << recs.size();
    for (auto& r : recs) os << " | " << r;
    return os.str();
}

static std::vector<Move> legalMoves(Position& pos) {
    MoveList moves;
    MoveGen::pseudoLegalMoves(pos, moves);
    MoveGen::removeIllegal(pos, moves);
    std::vector<Move> v;
    for (int i = 0; i < moves.size; i++) v.push_back(moves[i]);
    // canonical order (move generation order is an implementation detail)
    std::sort(v.begin(), v.end(), [](const Move& a, const Move& b) { return a.getCompressedMove() < b.getCompressedMove(); });
    return v;
}

/** Move pools that make transpositions frequent (equal half-move clocks): 1 = pawn moves on the a,d,e,h files,
 *  2 = pawn moves on those files and knight moves, 3 = any pawn or knight move, 0 = any legal move. */
static bool inPool(const Position& pos, const Move& m, int pool) {
    if (pool == 0) return true;
    int p = pos.getPiece(m.from());
    bool pawn = (p == Piece::WPAWN || p == Piece::BPAWN);
    bool knight = (p == Piece::WKNIGHT || p == Piece::BKNIGHT);
    int x = m.from().getX();
    bool file = (x == 0 || x == 3 || x == 4 || x == 7);
    if (pool == 1) return pawn && file;
    if (pool == 2) return (pawn && file) || knight;
    return pawn || knight;
}

struct AddSpec { U64 parent; std::string uci; U64 child; std::vector<std::pair<int, U64>> P, C; };

static std::string specStr(const AddSpec& a) {
    std::string p = linkStr(a.P), c = linkStr(a.C);
    return vHex(a.parent) + " " + a.uci + " " + vHex(a.child) + " P " + (p.empty() ? "-" : p) + " C " + (c.empty() ? "-" : c);
}

/** addPosToBook on the real Book; returns the links the new node got. */
static AddSpec doAdd(BookSession& S, U64 parentKey, Position& pos, const Move& m) {
    AddSpec a;
    a.parent = parentKey; a.uci = TextIO::moveToUCIString(m);
    BookBuildTest::addPos(*S.book, pos, m);
    UndoInfo ui;
    pos.makeMove(m, ui);
    a.child = pos.bookHash();
    pos.unMakeMove(m, ui);
    const BookNode* n = BookBuildTest::node(*S.book, a.child);
    a.P = parentsOf(n); a.C = childrenOf(n);
    S.order.push_back(a.child);
    return a;
}

static bool buildTree(const std::string& linesTok, GameTree& gt) {
    std::stringstream ss(linesTok);
    std::string line;
    while (std::getline(ss, line, '/')) {
        std::vector<Move> moves;
        std::stringstream ls(line);
        std::string mv;
        Position pos = TextIO::readFEN(TextIO::startPosFEN);
        while (std::getline(ls, mv, ',')) {
            Move m = TextIO::uciStringToMove(mv);
            if (m.isEmpty()) return false;
            std::vector<Move> legal = legalMoves(pos);
            bool ok = false;
            for (auto& l : legal) if (l == m) ok = true;
            if (!ok) return false;
            UndoInfo ui;
            pos.makeMove(m, ui);
            moves.push_back(m);
        }
        gt.insertMoves(moves);
    }
    return true;
}

/** writeToFile + readFromFile on the same Book object (readFromFile prints a statistic to cout: swallow it). */
static bool reloadBook(Book& b) {
    char name[] = "/tmp/vbookXXXXXX";
    int fd = mkstemp(name);
    if (fd < 0) return false;
    close(fd);
    b.writeToFile(name);
    std::ostringstream sink;
    std::streambuf* old = std::cout.rdbuf(sink.rdbuf());
    b.readFromFile(name);
    std::cout.rdbuf(old);
    std::remove(name);
    return true;
}

// ------------------------------------------------------------------------------------------------

static BookSession G;   // elaboration pass
static BookSession D;   // differential pass

/** Elaboration of `book import`: replicate Book::addToBook's traversal with individual addPosToBook calls on the
 *  elaboration book, recording the links of each added position.  Positions whose half-move clock has reached 100
 *  (and everything below them) are not added: Position::bookHash() does not distinguish larger clock values, so such
 *  positions would alias each other (and close cycles). */
static std::string elaborateImport(int maxPly, const std::string& tok) {
    Book& b = *G.book;
    GameTree gt;
    if (!buildTree(tok, gt)) return "bad-op";
    GameNode gn = gt.getRootNode();
    std::vector<AddSpec> specs;
    std::function<void(int)> rec = [&](int ply) {
        if (ply >= maxPly) return;
        Position base = gn.getPos();
        for (int i = 0; i < gn.nChildren(); i++) {
            gn.goForward(i);
            if (gn.getPos().getHalfMoveClock() < 100) {
                if (!BookBuildTest::node(b, gn.getPos().bookHash()))
                    specs.push_back(doAdd(G, base.bookHash(), base, gn.getMove()));
                rec(ply + 1);
            }
            gn.goBack();
        }
    };
    rec(0);
    std::string r = "book import " + std::to_string(maxPly) + " " + tok;
    for (auto& s : specs) r += " ; " + specStr(s);
    return r;
}

static U64 pickKey(BookSession& S, U64 frac) {   // frac in [0,65536): position in creation order
    size_t n = S.order.size();
    size_t i = (size_t)((frac % 65536) * n >> 16);
    return S.order[std::min(i, n - 1)];
}

static std::string handleGen(const std::vector<std::string>& a) {
    if (a.empty()) return "bad-op";
    const std::string& op = a[0];
    size_t n = a.size();
    if (op == "new" && n == 4) {
        int d = (int)vToInt(a[1]), o = (int)vToInt(a[2]), t = (int)vToInt(a[3]);
        G = BookSession();
        G.book.reset(new Book("", d, o, t));
        G.order.push_back(BookBuildTest::rootKey(*G.book));
        return "book new " + std::to_string(d) + " " + std::to_string(o) + " " + std::to_string(t) + " " + vHex(G.order[0]);
    }
    if (!G.book) return "bad-op";
    Book& b = *G.book;
    if (op == "add" && n == 5) {
        U64 key = pickKey(G, vToU64(a[1]));
        U64 r = vToU64(a[2]); int pool = (int)vToU64(a[3]); int pref = (int)vToU64(a[4]);
        Position pos;
        if (!BookBuildTest::position(b, key, pos)) return "bad-op";
        std::vector<Move> legal = legalMoves(pos), cand, pc, tc;
        for (auto& m : legal) {
            UndoInfo ui;
            pos.makeMove(m, ui);
            U64 h = pos.bookHash();
            bool isNew = !BookBuildTest::node(b, h);
            int links = 0;
            if (isNew && pref) {   // transposition: other book nodes lead here, or this position leads to book nodes
                links = BookBuildTest::knownParents(b, h) - 1;
                std::vector<Move> l2 = legalMoves(pos);
                for (auto& m2 : l2) {
                    UndoInfo ui2;
                    pos.makeMove(m2, ui2);
                    if (BookBuildTest::node(b, pos.bookHash())) links += 2;
                    pos.unMakeMove(m2, ui2);
                }
            }
            pos.unMakeMove(m, ui);
            if (isNew) { cand.push_back(m); if (inPool(pos, m, pool)) pc.push_back(m); if (links > 0) tc.push_back(m); }
        }
        if (!tc.empty()) cand = tc;
        else if (!pc.empty()) cand = pc;
        if (cand.empty()) return "book nop";
        AddSpec s = doAdd(G, key, pos, cand[r % cand.size()]);
        return "book add " + specStr(s);
    }
    if (op == "set" && n == 6) {
        U64 key = pickKey(G, vToU64(a[1]));
        U64 r = vToU64(a[2]); int mode = (int)vToU64(a[3]);
        int score = (int)vToInt(a[4]); long long time = vToInt(a[5]);
        if (score < -32768 || score > 32767 || time < 0 || time > 0xffffffffLL) return "bad-op";
        int cm = 0;
        if (mode != 0) {
            const BookNode* nd = BookBuildTest::node(b, key);
            if (mode == 2 && !nd->getChildren().empty()) {
                auto ch = childrenOf(nd);
                cm = ch[r % ch.size()].first;
            } else {
                Position pos;
                BookBuildTest::position(b, key, pos);
                std::vector<Move> legal = legalMoves(pos);
                if (!legal.empty()) cm = legal[r % legal.size()].getCompressedMove();
            }
        }
        BookBuildTest::setSearch(b, key, cm, score, (int)time);
        return "book set " + vHex(key) + " " + std::to_string(cm) + " " + std::to_string(score) + " " + std::to_string(time);
    }
    if (op == "pend" && n == 2) {
        U64 key = pickKey(G, vToU64(a[1]));
        BookBuildTest::addPending(b, key);
        if (std::find(G.pendList.begin(), G.pendList.end(), key) == G.pendList.end()) G.pendList.push_back(key);
        return "book pend " + vHex(key);
    }
    if (op == "unpend" && n == 2) {
        U64 key;
        if (!G.pendList.empty()) {
            size_t i = vToU64(a[1]) % G.pendList.size();
            key = G.pendList[i];
            G.pendList.erase(G.pendList.begin() + i);
        } else key = pickKey(G, vToU64(a[1]));
        BookBuildTest::removePending(b, key);
        return "book unpend " + vHex(key);
    }
    if (op == "upd" && n == 2) {
        U64 key = pickKey(G, vToU64(a[1]));
        BookBuildTest::update(b, key);
        return "book upd " + vHex(key);
    }
    if (op == "reload" && n == 1) { G.pendList.clear(); if (!reloadBook(b)) return "io-error"; return "book reload"; }
    if (op == "dump" && n == 1) return "book dump";
    if (op == "import" && n == 6) {
        int maxPly = (int)vToU64(a[1]); int nlines = (int)vToU64(a[2]), len = (int)vToU64(a[3]);
        U64 seed = vToU64(a[4]); int pool = (int)vToU64(a[5]);
        if (nlines < 1 || nlines > 64 || len < 1 || len > 200) return "bad-op";
        auto rnd = [&seed]() { seed = seed * 6364136223846793005ULL + 1442695040888963407ULL; return (U64)(seed >> 33); };
        std::vector<std::vector<Move>> lines;
        for (int k = 0; k < nlines; k++) {
            std::vector<Move> cur;
            Position pos = TextIO::readFEN(TextIO::startPosFEN);
            UndoInfo ui;
            if (k > 0 && !lines[k - 1].empty()) {
                size_t keep = rnd() % (lines[k - 1].size() + 1);
                for (size_t j = 0; j < keep; j++) { cur.push_back(lines[k - 1][j]); pos.makeMove(lines[k - 1][j], ui); }
            }
            while ((int)cur.size() < len) {
                std::vector<Move> legal = legalMoves(pos), pc;
                if (legal.empty()) break;
                for (auto& m : legal) if (inPool(pos, m, pool)) pc.push_back(m);
                if (!pc.empty()) legal = pc;
                Move m = legal[rnd() % legal.size()];
                cur.push_back(m); pos.makeMove(m, ui);
            }
            lines.push_back(cur);
        }
        std::string tok;
        for (size_t k = 0; k < lines.size(); k++) {
            if (k) tok += '/';
            for (size_t j = 0; j < lines[k].size(); j++) { if (j) tok += ','; tok += TextIO::moveToUCIString(lines[k][j]); }
        }
        return elaborateImport(maxPly, tok);
    }
    if (op == "importline" && n == 3) {   // explicit move lines: a/b/c with comma separated UCI moves
        long long maxPly = vToInt(a[1]);
        if (maxPly < 0 || maxPly > 1000) return "bad-op";
        return elaborateImport((int)maxPly, a[2]);
    }
    return "bad-op";
}

static bool parseSpec(const std::vector<std::string>& a, size_t i, AddSpec& s) {
    // <pkey> <uci> <nkey> P <links> C <links>
    if (i + 7 > a.size() || a[i + 3] != "P" || a[i + 5] != "C") return false;
    s.parent = vToU64(a[i]); s.uci = a[i + 1]; s.child = vToU64(a[i + 2]);
    return parseLinks(a[i + 4], s.P) && parseLinks(a[i + 6], s.C);
}

static std::string handleBook(const std::vector<std::string>& a) {
    if (a.empty()) return "bad-op";
    const std::string& op = a[0];
    size_t n = a.size();
    if (op == "new" && n == 5) {
        long long d = vToInt(a[1]), o = vToInt(a[2]), t = vToInt(a[3]);
        U64 rk = vToU64(a[4]);
        if (d < 0 || o < 0 || t < 0 || d > 100000 || o > 100000 || t > 100000) return "bad-op";
        D = BookSession();
        { std::ofstream trunc(backupPath().c_str(), std::ios_base::out | std::ios_base::binary | std::ios_base::trunc); }
        D.book.reset(new Book(backupPath(), (int)d, (int)o, (int)t));
        D.order.push_back(BookBuildTest::rootKey(*D.book));
        if (rk != D.order[0]) { D = BookSession(); return "key-mismatch"; }
        return diffReply(D, false);
    }
    if (!D.book) return "bad-op";
    Book& b = *D.book;
    if (op == "nop" && n == 1) return diffReply(D, false);
    if (op == "dump" && n == 1) return diffReply(D, true);
    if (op == "add" && n == 8) {
        AddSpec s;
        if (!parseSpec(a, 1, s)) return "bad-op";
        Position pos;
        if (!BookBuildTest::position(b, s.parent, pos) || BookBuildTest::node(b, s.child)) return "bad-op";
        Move m = TextIO::uciStringToMove(s.uci);
        std::vector<Move> legal = legalMoves(pos);
        bool ok = false;
        for (auto& l : legal) if (l == m) ok = true;
        if (!ok) return "bad-op";
        UndoInfo ui;
        pos.makeMove(m, ui);
        U64 h = pos.bookHash();
        pos.unMakeMove(m, ui);
        if (h != s.child) return "key-mismatch " + vHex(h);
        AddSpec got = doAdd(D, s.parent, pos, m);
        if (got.P != s.P || got.C != s.C) return "link-mismatch " + specStr(got);
        return diffReply(D, false);
    }
    if (op == "set" && n == 5) {
        U64 key = vToU64(a[1]);
        long long cm = vToInt(a[2]), score = vToInt(a[3]), time = vToInt(a[4]);
        if (!BookBuildTest::node(b, key) || cm < 0 || cm > 65535 || score < -32768 || score > 32767 || time < 0 || time > 0xffffffffLL) return "bad-op";
        BookBuildTest::setSearch(b, key, (int)cm, (int)score, (int)time);
        return diffReply(D, false);
    }
    if ((op == "pend" || op == "unpend" || op == "upd") && n == 2) {
        U64 key = vToU64(a[1]);
        if (!BookBuildTest::node(b, key)) return "bad-op";
        if (op == "pend") BookBuildTest::addPending(b, key);
        else if (op == "unpend") BookBuildTest::removePending(b, key);
        else BookBuildTest::update(b, key);
        return diffReply(D, false);
    }
    if (op == "reload" && n == 1) {
        if (++D.reloads % 2 == 0 && !backupPath().empty()) {        // load cycle through the backup file
            std::ostringstream sink;
            std::streambuf* old = std::cout.rdbuf(sink.rdbuf());
            b.readFromFile(backupPath());
            std::cout.rdbuf(old);
        } else if (!reloadBook(b)) return "io-error";
        return diffReply(D, false);
    }
    if (op == "import" && n >= 3) {
        long long maxPly = vToInt(a[1]);
        if (maxPly < 0 || maxPly > 1000) return "bad-op";
        std::vector<AddSpec> specs;
        size_t i = 3;
        while (i < n) {
            AddSpec s;
            if (a[i] != ";" || !parseSpec(a, i + 1, s)) return "bad-op";
            specs.push_back(s);
            i += 8;
        }
        GameTree gt;
        if (!buildTree(a[2], gt)) return "bad-op";
        GameNode gn = gt.getRootNode();
        int nAdded = 0;
        b.addToBook((int)maxPly, gn, nAdded);
        if (nAdded != (int)specs.size()) return "import-mismatch " + std::to_string(nAdded);
        for (auto& s : specs) {
            if (!BookBuildTest::node(b, s.child)) return "import-mismatch " + vHex(s.child);
            D.order.push_back(s.child);
        }
        return diffReply(D, false);
    }
    return "bad-op";
}

/** pure (de)serialisation kernels: `bookrec ser <key> <cmove> <score> <time>` and `bookrec deser <32 hex digits>` */
static std::string handleRec(const std::vector<std::string>& a) {
    if (a.size() == 5 && a[0] == "ser") {
        U64 key = vToU64(a[1]);
        long long cm = vToInt(a[2]), score = vToInt(a[3]), time = vToInt(a[4]);
        if (cm < 0 || cm > 65535 || score < -32768 || score > 32767 || time < 0 || time > 0xffffffffLL) return "bad-op";
        BookData bd(100, 200, 50);
        BookNode n(key);
        Move m; m.setFromCompressed((U16)cm);
        n.setSearchResult(bd, m, (int)score, (int)time);
        BookNode::BookSerializeData bsd;
        n.serialize(bsd);
        static const char* hx = "0123456789abcdef";
        std::string r;
        for (int i = 0; i < 16; i++) { r += hx[bsd.data[i] >> 4]; r += hx[bsd.data[i] & 15]; }
        return r;
    }
    if (a.size() == 2 && a[0] == "deser") {
        const std::string& h = a[1];
        if (h.size() != 32) return "bad-op";
        BookNode::BookSerializeData bsd;
        for (int i = 0; i < 16; i++) {
            int v = 0;
            for (int k = 0; k < 2; k++) {
                char c = h[2 * i + k];
                int d = (c >= '0' && c <= '9') ? c - '0' : (c >= 'a' && c <= 'f') ? c - 'a' + 10 : -1;
                if (d < 0) return "bad-op";
                v = v * 16 + d;
            }
            bsd.data[i] = (U8)v;
        }
        BookNode n(0);
        n.deSerialize(bsd);
        return vHex(n.getHashKey()) + " " + std::to_string(n.getBestNonBookMove().getCompressedMove()) + " " +
               std::to_string(n.getSearchScore()) + " " + std::to_string(n.getSearchTime());
    }
    return "bad-op";
}

static VReg regGen("bookgen", handleGen);
static VReg regRec("bookrec", handleRec);
static VReg regBook("book", handleBook);
