// C06: EngineControl::computeTimeLimit, Search::shouldStop, Search::setStrength through the line protocol
#include <memory>
#include <vector>
#include <string>
#include <sstream>
#include <atomic>
#include <mutex>
#include <thread>
#include <map>
#include <iostream>
#include <condition_variable>
#define private public
#define protected public
#include "enginecontrol.hpp"
#include "uciprotocol.hpp"
#include "search.hpp"
#undef private
#undef protected
#include "searchparams.hpp"
#include "parameters.hpp"
#include "textio.hpp"
#include "timeUtil.hpp"
#include "treeLogger.hpp"
#include "harness.hpp"

namespace {
struct TmEnv {
    EngineMainThread et;
    std::ostringstream os;
    SearchListener sl;
    EngineControl ec;
    TmEnv() : sl(os), ec(os, et, sl) {}
};
TmEnv& env() { static TmEnv* e = new TmEnv; return *e; }

struct ScEnv {
    std::vector<U64> nullHist;
    TranspositionTable tt;
    Notifier notifier;
    ThreadCommunicator comm;
    KillerTable kt;
    History ht;
    std::unique_ptr<Evaluate::EvalHashTables> et;
    TreeLogger treeLog;
    Position pos;
    std::unique_ptr<Search> sc;
    ScEnv() : nullHist(SearchConst::MAX_SEARCH_DEPTH * 2), tt(1024), comm(nullptr, tt, notifier, false),
              et(Evaluate::getEvalHashTables()), pos(TextIO::readFEN(TextIO::startPosFEN)) {
        Search::SearchTables st(comm.getCTT(), kt, ht, *et);
        sc.reset(new Search(pos, nullHist, 0, st, comm, treeLog));
    }
};
ScEnv& scEnv() { static ScEnv* e = new ScEnv; return *e; }

bool inInt(long long v) { return v >= -2147483648LL && v <= 2147483647LL; }

std::string handle(const std::vector<std::string>& a) {
    if (a.empty()) return "bad-op";
    const std::string& op = a[0];
    size_t n = a.size();
    if (op == "params" && n == 1) {
        std::ostringstream os;
        os << (int)timeMaxRemainingMoves << ' ' << std::static_pointer_cast<Parameters::SpinParam>(Parameters::instance().getParam("BufferTime"))->getDefaultValue() << ' ' << (int)maxTimeUsage << ' '
           << (int)timePonderHitRate << ' ' << (int)minTimeUsage;
        return os.str();
    }
    if (op == "alloc" && n == 14) {
        long long v[13];
        for (int i = 0; i < 13; i++) v[i] = vToInt(a[i + 1]);
        for (int i = 2; i <= 11; i++) if (!inInt(v[i])) return "bad-op";
        if (v[2] < 1 || v[2] > 10000) return "bad-op";
        TmEnv& e = env();
        UciParams::ponder->set(v[1] != 0 ? "true" : "false");
        Parameters::instance().set("BufferTime", std::to_string(v[2]));
        e.ec.pos = TextIO::readFEN(v[0] != 0 ? "4k3/8/8/8/8/8/8/4K3 w - - 0 1" : "4k3/8/8/8/8/8/8/4K3 b - - 0 1");
        SearchParams sp(0);
        sp.wTime = (int)v[3]; sp.bTime = (int)v[4]; sp.wInc = (int)v[5]; sp.bInc = (int)v[6]; sp.movesToGo = (int)v[7];
        sp.moveTime = (int)v[8]; sp.depth = (int)v[9]; sp.nodes = (int)v[10]; sp.mate = (int)v[11]; sp.infinite = v[12] != 0;
        e.ec.computeTimeLimit(sp);
        std::ostringstream os;
        os << e.ec.minTimeLimit << ' ' << e.ec.maxTimeLimit << ' ' << e.ec.earlyStopPercentage << ' ' << e.ec.maxDepth << ' ' << e.ec.maxNodes;
        return os.str();
    }
#ifdef TEXEL_VERIF
    if (op == "poll" && n == 11) {
        long long v[10];
        for (int i = 0; i < 10; i++) v[i] = vToInt(a[i + 1]);
        if (v[6] < 0 || v[9] < 0 || v[8] < 0) return "bad-op";
        if (!VerifClock::enabled()) return "no-virtual-clock";
        Search& sc = *scEnv().sc;
        sc.tStart = v[1];
        sc.minTimeMillis = v[2];
        sc.maxTimeMillis = v[3];
        sc.earlyStopPercentage = (int)v[4];
        sc.searchNeedMoreTime = v[5] != 0;
        sc.hardFactor = v[6] / 1024.0;
        sc.maxNodes = v[7];
        sc.totalNodes = v[8];
        sc.maxNPS = (int)v[9];
        sc.tLastStats = v[0];
        VerifClock::setMicros(v[0] * 1000);
        bool stop = sc.shouldStop();
        long long slept = (VerifClock::nowMicros() - v[0] * 1000) / 1000;
        return std::string(stop ? "1 " : "0 ") + std::to_string(slept);
    }
#endif
    if (op == "nbtc" && n == 2) {
        long long m = vToInt(a[1]);
        if (m < 0 || !inInt(m)) return "bad-op";
        Search& sc = *scEnv().sc;
        sc.setStrength(1000, 0, (int)m);
        return std::to_string(sc.nodesBetweenTimeCheck);
    }
    return "bad-op";
}
VReg reg("tm", handle);
}
