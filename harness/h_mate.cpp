// C04 / C13: untrusted mate solver producing certificates that the Lean model verifies.
#include <memory>
#include <vector>
#include <string>
#include <algorithm>
#include "position.hpp"
#include "moveGen.hpp"
#include "textio.hpp"
#include "harness.hpp"

std::string vFenOf(const std::vector<std::string>& a, size_t from, size_t to);
std::string vFenErrClass(const std::string& msg);

namespace {
struct Solver {
    long long budget;
    bool exhausted = false;

    static void legalMoves(Position& pos, MoveList& ml) {
        MoveGen::pseudoLegalMoves(pos, ml); MoveGen::removeIllegal(pos, ml);
    }
    static std::string u(const Move& m) { return TextIO::moveToUCIString(m); }

    // side to move can force mate with at most n own moves; cert gets the strategy tree
    bool win(Position& pos, int n, std::string& cert) {
        if (n <= 0) return false;
        if (--budget < 0) { exhausted = true; return false; }
        MoveList ml; legalMoves(pos, ml);
        // checks first
        std::vector<int> order;
        for (int i = 0; i < ml.size; i++) if (MoveGen::givesCheck(pos, ml[i])) order.push_back(i);
        size_t nChecks = order.size();
        // (non-checking moves are tried too even for n == 1: the ordering must not make the solver depend on givesCheck)
        for (int i = 0; i < ml.size; i++) if (!MoveGen::givesCheck(pos, ml[i])) order.push_back(i);
        (void)nChecks;
        for (int idx : order) {
            const Move& m = ml[idx];
            UndoInfo ui; pos.makeMove(m, ui);
            MoveList rl; legalMoves(pos, rl);
            bool ok = false; std::string sub;
            if (rl.size == 0) {
                if (MoveGen::inCheck(pos)) { ok = true; sub = u(m) + " #"; }
            } else if (n >= 2) {
                ok = true; sub = u(m) + " (";
                for (int j = 0; j < rl.size && ok; j++) {
                    UndoInfo ui2; pos.makeMove(rl[j], ui2);
                    std::string c;
                    if (win(pos, n - 1, c)) sub += " " + u(rl[j]) + " " + c; else ok = false;
                    pos.unMakeMove(rl[j], ui2);
                }
                sub += " )";
            }
            pos.unMakeMove(m, ui);
            if (exhausted) return false;
            if (ok) { cert = sub; return true; }
        }
        return false;
    }

    // certificate that no mate can be forced within n own moves (assumes win(pos,n) is false)
    bool nowin(Position& pos, int n, std::string& cert) {
        if (n <= 0) { cert = "."; return true; }
        if (--budget < 0) { exhausted = true; return false; }
        MoveList ml; legalMoves(pos, ml);
        cert = "[";
        for (int i = 0; i < ml.size; i++) {
            const Move& m = ml[i];
            UndoInfo ui; pos.makeMove(m, ui);
            MoveList rl; legalMoves(pos, rl);
            bool found = false;
            if (rl.size == 0) {
                if (!MoveGen::inCheck(pos)) { cert += " " + u(m) + " ="; found = true; }
            } else {
                for (int j = 0; j < rl.size && !found; j++) {
                    UndoInfo ui2; pos.makeMove(rl[j], ui2);
                    std::string dummy, c;
                    if (!win(pos, n - 1, dummy) && !exhausted && nowin(pos, n - 1, c)) {
                        cert += " " + u(m) + " " + u(rl[j]) + " " + c; found = true;
                    }
                    pos.unMakeMove(rl[j], ui2);
                }
            }
            pos.unMakeMove(m, ui);
            if (!found || exhausted) return false;
        }
        cert += " ]";
        return true;
    }
};

std::string handle(const std::vector<std::string>& a) {
    if (a.empty()) return "bad-op";
    try {
        if (a[0] == "mate1") {
            Position pos = TextIO::readFEN(vFenOf(a, 1, a.size()));
            Solver s; s.budget = 1000000; std::string c;
            return s.win(pos, 1, c) ? "1" : "0";
        }
        if (a[0] == "solve" && a.size() >= 4) {
            int n = (int)vToU64(a[1]);
            Position pos = TextIO::readFEN(vFenOf(a, 3, a.size()));
            Solver s; s.budget = (long long)vToU64(a[2]); std::string c;
            if (s.win(pos, n, c)) return "win " + c;
            if (s.exhausted) return "unknown";
            Solver t; t.budget = (long long)vToU64(a[2]) * 4;
            if (t.nowin(pos, n, c)) return "nowin " + c;
            return "unknown";
        }
        if (a[0] == "lose" && a.size() >= 4) {
            // every move of the side to move loses to a mate within n opponent moves
            int n = (int)vToU64(a[1]);
            Position pos = TextIO::readFEN(vFenOf(a, 3, a.size()));
            MoveList ml; Solver::legalMoves(pos, ml);
            if (ml.size == 0) return "nomoves";
            std::string out = "lose";
            for (int i = 0; i < ml.size; i++) {
                UndoInfo ui; pos.makeMove(ml[i], ui);
                Solver s; s.budget = (long long)vToU64(a[2]); std::string c;
                bool w = s.win(pos, n, c);
                std::string nc;
                bool refuted = false;
                if (!w && !s.exhausted) { Solver t; t.budget = (long long)vToU64(a[2]) * 4; refuted = t.nowin(pos, n, nc); }
                pos.unMakeMove(ml[i], ui);
                if (w) out += " " + Solver::u(ml[i]) + " " + c;
                else if (refuted) return "notlose " + Solver::u(ml[i]) + " " + nc;
                else return "unknown";
            }
            return out;
        }
        // ---- generators for the interior-claim audit of C04 (untrusted; they only select positions to search) ----
        if (a[0] == "esc" && a.size() >= 4) {
            // which moves of the side to move do NOT run into a forced mate within n opponent moves?
            // -> esc <inCheck> <#legal> <#saving> <side to move has a piece and a pawn> : <saving move><flags q|x|+|p> ...
            int n = (int)vToU64(a[1]);
            Position pos = TextIO::readFEN(vFenOf(a, 3, a.size()));
            MoveList ml; Solver::legalMoves(pos, ml);
            if (ml.size == 0) return "nomoves";
            bool w = pos.isWhiteMove();
            bool pp = w ? (pos.wMtrl() > pos.wMtrlPawns() && pos.wMtrlPawns() > 0) : (pos.bMtrl() > pos.bMtrlPawns() && pos.bMtrlPawns() > 0);
            std::string sv; int nsv = 0;
            for (int i = 0; i < ml.size; i++) {
                std::string fl;
                if (pos.getPiece(ml[i].to()) != Piece::EMPTY) fl += "x";
                if (ml[i].promoteTo() != Piece::EMPTY) fl += "p";
                if (MoveGen::givesCheck(pos, ml[i])) fl += "+";
                if (fl.empty()) fl = "q";
                UndoInfo ui; pos.makeMove(ml[i], ui);
                Solver s; s.budget = (long long)vToU64(a[2]); std::string c;
                bool win = s.win(pos, n, c);
                pos.unMakeMove(ml[i], ui);
                if (s.exhausted) return "unknown";
                if (!win) { nsv++; sv += " " + Solver::u(ml[i]) + fl; }
            }
            return std::string("esc ") + (MoveGen::inCheck(pos) ? "1 " : "0 ") + std::to_string(ml.size) + " " + std::to_string(nsv) + (pp ? " 1 :" : " 0 :") + sv;
        }
        if (a[0] == "zug" && a.size() >= 4) {
            // null-move zugzwang: would passing mate faster than any move?  -> zug <a> <b> <c>:
            //   a = after a pass the opponent (to move) is mated within m moves whatever it plays,
            //   b = the side to move has a forced mate within m+1 moves, c = it has a piece and a pawn (null move allowed)
            int m = (int)vToU64(a[1]);
            Position pos = TextIO::readFEN(vFenOf(a, 3, a.size()));
            if (MoveGen::inCheck(pos)) return "zug 0 0 0";
            bool w = pos.isWhiteMove();
            bool pp = w ? (pos.wMtrl() > pos.wMtrlPawns() && pos.wMtrlPawns() > 0) : (pos.bMtrl() > pos.bMtrlPawns() && pos.bMtrlPawns() > 0);
            Position np(pos);
            np.setWhiteMove(!w); np.setEpSquare(Square(-1));
            MoveList ml; Solver::legalMoves(np, ml);
            bool lost = ml.size > 0;
            for (int i = 0; i < ml.size && lost; i++) {
                UndoInfo ui; np.makeMove(ml[i], ui);
                Solver s; s.budget = (long long)vToU64(a[2]); std::string c;
                if (!s.win(np, m, c)) lost = false;
                np.unMakeMove(ml[i], ui);
                if (s.exhausted) return "unknown";
            }
            if (!lost) return std::string("zug 0 0 ") + (pp ? "1" : "0");
            Solver s; s.budget = (long long)vToU64(a[2]) * 4; std::string c;
            bool win = s.win(pos, m + 1, c);
            if (s.exhausted) return "unknown";
            return std::string("zug 1 ") + (win ? "1 " : "0 ") + (pp ? "1" : "0");
        }
        if (a[0] == "pred" && a.size() >= 2) {
            // predecessors by a non-capturing, non-promoting, non-castling retro-move of the side that just moved; each one
            // is verified by playing the move forward.  -> pred <fen> | <fen> | ...
            Position pos = TextIO::readFEN(vFenOf(a, 1, a.size()));
            if (pos.getEpSquare().isValid()) return "pred";
            std::string target = TextIO::toFEN(pos); target = target.substr(0, target.find(' ', target.find(' ', target.find(' ', target.find(' ') + 1) + 1) + 1));
            bool mover = !pos.isWhiteMove();
            std::string out = "pred";
            for (int t = 0; t < 64; t++) {
                int pc = pos.getPiece(Square(t));
                if (pc == Piece::EMPTY || Piece::isWhite(pc) != mover) continue;
                for (int f = 0; f < 64; f++) {
                    if (f == t || pos.getPiece(Square(f)) != Piece::EMPTY) continue;
                    if ((pc == Piece::WPAWN || pc == Piece::BPAWN) && (f / 8 == 0 || f / 8 == 7)) continue;
                    Position r(pos);
                    r.setPiece(Square(t), Piece::EMPTY); r.setPiece(Square(f), pc);
                    r.setWhiteMove(mover); r.setCastleMask(0); r.setHalfMoveClock(0);
                    std::string rf = TextIO::toFEN(r);
                    try {
                        Position r2 = TextIO::readFEN(rf);
                        MoveList ml; Solver::legalMoves(r2, ml);
                        for (int i = 0; i < ml.size; i++) {
                            if (ml[i].from().asInt() != f || ml[i].to().asInt() != t || ml[i].promoteTo() != Piece::EMPTY) continue;
                            UndoInfo ui; r2.makeMove(ml[i], ui);
                            std::string g = TextIO::toFEN(r2); g = g.substr(0, g.find(' ', g.find(' ', g.find(' ', g.find(' ') + 1) + 1) + 1));
                            r2.unMakeMove(ml[i], ui);
                            if (g == target) out += (out.size() > 4 ? " | " : " ") + rf;
                        }
                    } catch (const ChessParseError&) { }
                }
            }
            return out;
        }
    } catch (const ChessParseError& e) {
        return "err " + vFenErrClass(e.what());
    }
    return "bad-op";
}
VReg reg("mate", handle);
}
