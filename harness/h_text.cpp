// C17: text formats (SAN / long / UCI move text, FEN, PGN) through the line protocol.
// Byte strings travel hex-encoded ("-" = empty string) so that arbitrary bytes can be offered to the parsers.
#include <memory>
#include <vector>
#include <string>
#include <sstream>
#include <iostream>
#include <algorithm>
#include <map>
#include <set>
#include <functional>
#include <unistd.h>
#define private public
#define protected public
#include "position.hpp"
#include "moveGen.hpp"
#include "textio.hpp"
#include "gametree.hpp"
#undef private
#undef protected
#include "random.hpp"
#include "harness.hpp"

std::string vFenErrClass(const std::string& msg);                                   // h_chess.cpp
std::string vFenOf(const std::vector<std::string>& a, size_t from, size_t to);      // h_chess.cpp

static bool unhex(const std::string& h, std::string& out) {
    out.clear();
    if (h == "-") return true;
    if (h.size() % 2) return false;
    auto val = [](char c) -> int {
        if (c >= '0' && c <= '9') return c - '0';
        if (c >= 'a' && c <= 'f') return c - 'a' + 10;
        return -1; };
    for (size_t i = 0; i < h.size(); i += 2) {
        int a = val(h[i]), b = val(h[i + 1]);
        if (a < 0 || b < 0) return false;
        out += (char)(a * 16 + b);
    }
    return true;
}

static std::string hexOf(const std::string& s) {
    if (s.empty()) return "-";
    static const char* d = "0123456789abcdef";
    std::string r;
    for (unsigned char c : s) { r += d[c >> 4]; r += d[c & 15]; }
    return r;
}

static void legalMoves(const Position& pos, MoveList& ml) {
    Position tmp(pos);
    MoveGen::pseudoLegalMoves(tmp, ml);
    MoveGen::removeIllegal(tmp, ml);
}

static std::string mvNum(const Move& m) {
    if (m.isEmpty()) return "none";
    std::ostringstream os;
    os << m.from().asInt() << " " << m.to().asInt() << ' ' << m.promoteTo();
    return os.str();
}

/** The accessors every consumer of a freshly read position calls: hashes, FEN writer, move generation,
 *  move text for every legal move, and make/unmake of every legal move with the hashes of the child. */
static U64 exerciseAccessors(const Position& pos0) {
    Position pos(pos0);
    U64 acc = pos.historyHash() ^ pos.bookHash() ^ pos.zobristHash();
    acc += TextIO::toFEN(pos).size();
    MoveList ml; legalMoves(pos, ml);
    for (int i = 0; i < ml.size; i++) {
        acc += TextIO::moveToString(pos, ml[i], false).size();
        acc += TextIO::moveToString(pos, ml[i], true).size();
        UndoInfo ui;
        pos.makeMove(ml[i], ui);
        acc ^= pos.historyHash() ^ pos.bookHash();
        acc += TextIO::toFEN(pos).size();
        pos.unMakeMove(ml[i], ui);
    }
    return acc;
}

// ---- PGN tree dump -----------------------------------------------------------------------------------

static void dumpNode(const std::shared_ptr<Node>& n, bool root, std::string& out) {
    out += '(';
    out += root ? std::string("root") : TextIO::moveToUCIString(n->getMove());
    out += ':'; out += num2Str(n->getNag());
    out += ':'; out += hexOf(n->getPreComment());
    out += ':'; out += hexOf(n->getPostComment());
    for (const auto& c : n->getChildren()) dumpNode(c, false, out);
    out += ')';
}

static std::string fenU(const Position& pos) {
    std::string f = TextIO::toFEN(pos);
    std::replace(f.begin(), f.end(), ' ', '_');
    return f;
}

static std::string dumpGame(GameTree& gt, const std::string& written) {
    std::string out = "G h=";
    out += hexOf(gt.event) + "," + hexOf(gt.site) + "," + hexOf(gt.date) + "," + hexOf(gt.round) + "," +
           hexOf(gt.white) + "," + hexOf(gt.black) + "," + hexOf(gt.result);
    out += " tags=";
    if (gt.tagPairs.empty()) out += "-";
    for (size_t i = 0; i < gt.tagPairs.size(); i++) {
        if (i) out += ",";
        out += hexOf(gt.tagPairs[i].tagName) + "=" + hexOf(gt.tagPairs[i].tagValue);
    }
    out += " fen=" + fenU(gt.startPos) + " t=";
    dumpNode(gt.rootNode, true, out);
    out += " w=" + hexOf(written);
    return out;
}

static bool treeEq(const std::shared_ptr<Node>& a, const std::shared_ptr<Node>& b) {
    if (!(a->getMove() == b->getMove())) return false;
    if (a->getChildren().size() != b->getChildren().size()) return false;
    for (size_t i = 0; i < a->getChildren().size(); i++)
        if (!treeEq(a->getChildren()[i], b->getChildren()[i])) return false;
    return true;
}

static int countNodes(const std::shared_ptr<Node>& a) {
    int n = 1;
    for (const auto& c : a->getChildren()) n += countNodes(c);
    return n;
}

struct CerrSilencer {   // parsePgn prints a board to std::cerr before throwing; sanitizer reports do not use std::cerr
    std::streambuf* old;
    CerrSilencer() : old(std::cerr.rdbuf(nullptr)) {}
    ~CerrSilencer() { std::cerr.rdbuf(old); std::cerr.clear(); }
};

static std::string readAllGames(const std::string& text, int maxGames) {
    std::stringstream is(text);
    PgnReader reader(is);
    std::string out;
    CerrSilencer quiet;
    int n = 0;
    try {
        while (n < maxGames) {
            GameTree gt;
            if (!reader.readPGN(gt)) break;
            // consumers walk the tree and regenerate the move text
            std::string str; std::set<GameTree::RangeToNode> posToNodes;
            gt.getGameTreeString(str, posToNodes);
            if (!out.empty()) out += " | ";
            out += dumpGame(gt, str);
            n++;
        }
    } catch (const ChessParseError& e) {
        std::string msg = e.what();
        if (!out.empty()) out += " | ";
        out += msg == "Invalid move" ? std::string("err invalid-move") : "err fen:" + vFenErrClass(msg);
        return out;
    }
    if (out.empty()) out = "nogame";
    return out;
}

// ---- handler -----------------------------------------------------------------------------------------

static std::string handle(const std::vector<std::string>& a) {
    if (a.empty()) return "bad-op";
    const std::string& op = a[0];
    std::cout.flush();          // everything answered so far is out before a parser gets to crash
    alarm(60);                  // watchdog: a parser that does not terminate is killed by SIGALRM
    struct AlarmOff { ~AlarmOff() { alarm(0); } } alarmOff;
    try {
        if (op == "moves" && a.size() >= 2) {
            Position pos = TextIO::readFEN(vFenOf(a, 1, a.size()));
            MoveList ml; legalMoves(pos, ml);
            std::vector<std::string> v;
            for (int i = 0; i < ml.size; i++) {
                const Move& m = ml[i];
                std::string uci = TextIO::moveToUCIString(m);
                std::string sh = TextIO::moveToString(pos, m, false);
                std::string lo = TextIO::moveToString(pos, m, true);
                Position p1(pos), p2(pos);
                bool okS = TextIO::stringToMove(p1, sh) == m && p1 == pos;
                bool okL = TextIO::stringToMove(p2, lo) == m && p2 == pos;
                bool okU = TextIO::uciStringToMove(uci) == m;
                bool okA = true;    // alternative castling spellings
                if (sh.compare(0, 3, "O-O") == 0) {
                    bool lng = sh.compare(0, 5, "O-O-O") == 0;
                    for (const char* alt : {lng ? "0-0-0" : "0-0", lng ? "o-o-o" : "o-o"}) {
                        Position p3(pos);
                        if (!(TextIO::stringToMove(p3, alt) == m)) okA = false;
                    }
                }
                v.push_back(uci + "," + sh + "," + lo + "," + (okS ? "1" : "0") + (okL ? "1" : "0") + (okU ? "1" : "0") + (okA ? "1" : "0"));
            }
            std::sort(v.begin(), v.end());
            return "ok " + num2Str(ml.size) + (v.empty() ? "" : " ") + vJoin(v);
        }
        if (op == "fenx" && a.size() == 2) {
            std::string s;
            if (!unhex(a[1], s)) return "bad-op";
            Position pos = TextIO::readFEN(s);
            exerciseAccessors(pos);
            return "ok " + TextIO::toFEN(pos);
        }
        if (op == "sanx" && a.size() >= 3) {
            std::string s;
            if (!unhex(a[1], s)) return "bad-op";
            Position pos = TextIO::readFEN(vFenOf(a, 2, a.size()));
            Position p0(pos);
            Move m = TextIO::stringToMove(pos, s);
            if (!(pos == p0)) return "position-changed";
            return "mv " + mvNum(m);
        }
        if (op == "ucix" && a.size() == 2) {
            std::string s;
            if (!unhex(a[1], s)) return "bad-op";
            return "mv " + mvNum(TextIO::uciStringToMove(s));
        }
        if (op == "pgnx" && a.size() == 2) {
            std::string s;
            if (!unhex(a[1], s)) return "bad-op";
            return readAllGames(s, 10000);
        }
        if (op == "pgngen" && a.size() >= 4) {
            // random game tree built through the GameTree API, written by the real writer, read back by the real reader
            U64 seed = vToU64(a[1]); int maxNodes = (int)vToU64(a[2]);
            Position start = TextIO::readFEN(vFenOf(a, 3, a.size()));
            Random rnd(seed);
            GameTree gt;
            gt.setStartPos(start);
            GameNode gn = gt.getRootNode();
            int nodes = 0;
            for (int step = 0; step < maxNodes * 4 && nodes < maxNodes; step++) {
                int r = rnd.nextInt(100);
                if (r < 45) {
                    MoveList ml; legalMoves(gn.getPos(), ml);
                    if (ml.size == 0) { if (!gn.goBack()) break; continue; }
                    Move m = ml[rnd.nextInt(ml.size)];
                    bool dup = false;
                    for (const auto& c : gn.getNode()->getChildren()) if (c->getMove() == m) dup = true;
                    if (dup && rnd.nextInt(10) != 0) continue;
                    gn.insertMove(m); nodes++;
                    gn.goForward(gn.nChildren() - 1);
                } else if (r < 70) {
                    if (gn.nChildren() > 0) gn.goForward(rnd.nextInt(gn.nChildren()));
                } else {
                    int k = 1 + rnd.nextInt(4);
                    while (k-- > 0 && gn.goBack()) {}
                }
            }
            std::string str; std::set<GameTree::RangeToNode> posToNodes;
            gt.getGameTreeString(str, posToNodes);
            std::string pgn = "[FEN \"" + TextIO::toFEN(start) + "\"]\n" + str + "\n";
            std::stringstream is(pgn);
            PgnReader reader(is);
            GameTree gt2;
            bool got = reader.readPGN(gt2);
            bool eq = got && gt2.startPos == start && treeEq(gt.rootNode, gt2.rootNode);
            std::string str2;
            if (got) gt2.getGameTreeString(str2, posToNodes);
            return std::string("tree eq=") + (eq ? "1" : "0") + " same-text=" + (str2 == str ? "1" : "0") +
                   " n=" + num2Str(countNodes(gt.rootNode) - 1) + " W=" + hexOf(str);
        }
    } catch (const ChessParseError& e) {
        return "err " + vFenErrClass(e.what());
    } catch (const ChessError& e) {
        return std::string("chess-error ") + e.what();
    } catch (const std::exception& e) {
        // anything but a ChessError escaping a parser would terminate the engine
        return std::string("uncaught-exception ") + e.what();
    }
    return "bad-op";
}
static VReg reg("text", handle);
