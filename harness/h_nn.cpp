// C07: NNEvaluator / Evaluate through the line protocol.
//   "nn"  ops: model-level (compared line by line with the Lean model of nneval.cpp, Drv/NN.lean)
//   "nng" ops: generator (the harness picks legal moves and prints the concrete "nn" line; implementation only)
//   "nne" ops: Evaluate-level property predicates (cache, contempt, symmetry, hooked searches; implementation only)
#include <memory>
#include <vector>
#include <string>
#include <sstream>
#include <iostream>
#include <fstream>
#include <atomic>
#include <mutex>
#include <condition_variable>
#include <thread>
#include <map>
#include <set>
#include <unordered_map>
#include <array>
#include <algorithm>
#include <functional>
#include <cstring>
#include <cassert>
#include <random>
#include <deque>
#include <list>
#include <bitset>
#include <chrono>
#define private public
#define protected public
#include "position.hpp"
#include "nneval.hpp"
#include "evaluate.hpp"
#undef private
#undef protected
#include "moveGen.hpp"
#include "textio.hpp"
#include "search.hpp"
#include "parallel.hpp"
#include "history.hpp"
#include "killerTable.hpp"
#include "treeLogger.hpp"
#include "transpositionTable.hpp"
#include "nntypes.hpp"
#include "random.hpp"
#include "harness.hpp"

// ---------------------------------------------------------------------------------------------
// formula network: weight1 row r, lane j = hash(r*256+j); identical formula in Drv/NN.lean
// ---------------------------------------------------------------------------------------------
static inline U32 h32(U32 x) {          // lowbias32
    x += 1u;
    x ^= x >> 16; x *= 0x7feb352du; x ^= x >> 15; x *= 0x846ca68bu; x ^= x >> 16;
    return x;
}
static S16 wFormula(bool wide, U32 x) {
    U32 v = h32(x) & 0xffffu;
    return wide ? (S16)(U16)v : (S16)((int)(v & 0x7f) - 64);
}
static const int shownLanes[4] = {0, 1, 127, 255};

static std::string mkFormulaNet(bool wide, const std::string& path) {
    auto np = NetData::create(); NetData& n = *np;
    for (int r = 0; r < NetData::inFeatures; r++)
        for (int j = 0; j < NetData::n1; j++)
            n.weight1(r, j) = wFormula(wide, (U32)r * 256u + (U32)j);
    for (int j = 0; j < NetData::n1; j++)
        n.bias1(j) = wFormula(wide, 0x05000000u + (U32)j);
    Random r(wide ? 4711 : 4712);
    auto rnd = [&](int lo, int hi) { return lo + (int)(r.nextU64() % (U64)(hi - lo + 1)); };
    for (auto& h : n.head) {
        for (auto& w : h.lin2.weight.data) w = rnd(-20, 20);
        for (auto& b : h.lin2.bias.data) b = rnd(-500, 500);
        for (auto& w : h.lin3.weight.data) w = rnd(-30, 30);
        for (auto& b : h.lin3.bias.data) b = rnd(-500, 500);
        for (auto& w : h.lin4.weight.data) w = rnd(-40, 40);
        for (auto& b : h.lin4.bias.data) b = rnd(-2000, 2000);
    }
    std::ofstream os(path, std::ios::binary);
    n.save(os);
    return os ? "ok" : "io-error";
}

// ---------------------------------------------------------------------------------------------
// shared helpers
// ---------------------------------------------------------------------------------------------
static int charToPiece(char c) {
    static const std::string s = ".KQRBNPkqrbnp";
    size_t i = s.find(c);
    return i == std::string::npos ? -1 : (int)i;
}

struct PosSpec { int sq[64]; bool wtm; int castle; int ep; int hmc; int fmc; };

// parse "<board64> <w|b> <castle> <ep> <hmc> <fmc>" starting at a[i]; same rules as Drv/NN.lean
static bool parseSpec(const std::vector<std::string>& a, size_t i, PosSpec& ps) {
    if (a.size() < i + 6) return false;
    const std::string& b = a[i];
    if (b.size() != 64) return false;
    int nk[2] = {0, 0}, nonKing = 0;
    for (int s = 0; s < 64; s++) {
        int p = charToPiece(b[s]);
        if (p < 0) return false;
        ps.sq[s] = p;
        if (p == Piece::WKING) nk[0]++;
        else if (p == Piece::BKING) nk[1]++;
        else if (p != 0) nonKing++;
    }
    if (nk[0] != 1 || nk[1] != 1 || nonKing > 30) return false;
    if (a[i+1] != "w" && a[i+1] != "b") return false;
    ps.wtm = a[i+1] == "w";
    long long c = vToInt(a[i+2]), e = vToInt(a[i+3]), h = vToInt(a[i+4]), f = vToInt(a[i+5]);
    if (c < 0 || c > 15 || e < -1 || e > 63 || h < 0 || h > 100 || f < 1 || f > 10000) return false;
    ps.castle = (int)c; ps.ep = (int)e; ps.hmc = (int)h; ps.fmc = (int)f;
    return true;
}

static void buildPos(const PosSpec& ps, Position& p) {
    p = Position();
    for (int s = 0; s < 64; s++)
        if (ps.sq[s]) p.setPiece(Square(s), ps.sq[s]);
    p.setWhiteMove(ps.wtm);
    p.setCastleMask(ps.castle);
    p.setEpSquare(Square(ps.ep));
    p.setHalfMoveClock(ps.hmc);
    p.setFullMoveCounter(ps.fmc);
}

static int fixedCastleMask(const Position& p, int mask) {
    auto has = [&](int sq, int pc) { return p.getPiece(Square(sq)) == pc; };
    if (!(has(4, Piece::WKING) && has(0, Piece::WROOK))) mask &= ~(1 << Position::A1_CASTLE);
    if (!(has(4, Piece::WKING) && has(7, Piece::WROOK))) mask &= ~(1 << Position::H1_CASTLE);
    if (!(has(60, Piece::BKING) && has(56, Piece::BROOK))) mask &= ~(1 << Position::A8_CASTLE);
    if (!(has(60, Piece::BKING) && has(63, Piece::BROOK))) mask &= ~(1 << Position::H8_CASTLE);
    return mask;
}

// plausibility of a position for move generation
static bool saneForMoveGen(Position& p) {
    if (BitBoard::bitCount(p.pieceTypeBB(Piece::WKING)) != 1 || BitBoard::bitCount(p.pieceTypeBB(Piece::BKING)) != 1) return false;
    if (p.pieceTypeBB(Piece::WPAWN, Piece::BPAWN) & 0xff000000000000ffULL) return false;
    if (p.getCastleMask() != fixedCastleMask(p, p.getCastleMask())) return false;
    if (MoveGen::canTakeKing(p)) return false;
    if (p.getEpSquare().isValid()) {
        Position q(p);
        TextIO::fixupEPSquare(q);
        if (q.getEpSquare() != p.getEpSquare()) return false;
    }
    return true;
}

static bool findLegal(Position& p, int from, int to, int promo, Move& out) {
    MoveList ml;
    MoveGen::pseudoLegalMoves(p, ml);
    MoveGen::removeIllegal(p, ml);
    for (int i = 0; i < ml.size; i++)
        if (ml[i].from().asInt() == from && ml[i].to().asInt() == to && ml[i].promoteTo() == promo) { out = ml[i]; return true; }
    return false;
}

// ---------------------------------------------------------------------------------------------
// model-level session ("nn" / "nng")
// ---------------------------------------------------------------------------------------------
struct UndoEnt { bool isNull; Move m; UndoInfo ui; bool wtm; Square ep; int hmc; };

static Position gPos;                                           // must not move: the evaluator points to it
static std::unique_ptr<Evaluate::EvalHashTables> gEt;
static std::shared_ptr<NNEvaluator> gFresh;                     // scratch evaluator for from-scratch comparison
static std::vector<UndoEnt> gUndo;
static bool gActive = false;
static const int maxUndo = 190;

static NNEvaluator& theNN() {
    if (!gEt) gEt = Evaluate::getEvalHashTables();
    return *gEt->nnEval;
}
static NNEvaluator& freshNN() {
    if (!gFresh) gFresh = NNEvaluator::create(theNN().netData);
    return *gFresh;
}

static std::string stateLine(NNEvaluator& nn) {
    std::ostringstream os;
    os << nn.stack.stackTop;
    for (int c = 0; c < 2; c++) {
        NNEvaluator::FirstLayerState& s = nn.stack.flState[nn.stack.stackTop][c];
        os << (c == 0 ? " W " : " B ");
        bool valid = s.kingSqComputed.isValid();
        if (valid) os << s.kingSqComputed.asInt(); else os << '-';
        os << " [";
        for (int i = 0; i < s.toAddLen; i++) os << (i ? "," : "") << s.toAdd[i];
        os << "] [";
        for (int i = 0; i < s.toSubLen; i++) os << (i ? "," : "") << s.toSub[i];
        os << "] ";
        if (valid) {
            for (int i = 0; i < 4; i++) os << (i ? "," : "") << (int)s.l1Out(shownLanes[i]);
        } else os << '-';
    }
    return os.str();
}

/** The property predicate on the implementation: what eval() computes now (accumulators of both perspectives, the
 *  clipped first-layer output and the score) equals what a brand-new evaluator computes for a copy of the position.
 *  If !keep, the evaluator's state stack is restored afterwards so that the check does not perturb the history. */
static std::string compareWithFresh(NNEvaluator& nn, const Position& pos, bool keep) {
    static std::vector<char> save(sizeof(nn.stack));
    if (!keep) std::memcpy(save.data(), (const void*)&nn.stack, sizeof(nn.stack));
    int sc = nn.eval();
    std::string res = "ok";
    {
        Position p2(pos);
        NNEvaluator& f = freshNN();
        f.connectPosition(&p2);
        int sc2 = f.eval();
        std::ostringstream os;
        for (int c = 0; c < 2 && res == "ok"; c++)
            for (int i = 0; i < NNEvaluator::n1; i++) {
                int x = nn.getLinState(c).l1Out(i), y = f.getLinState(c).l1Out(i);
                if (x != y) { os << "MISMATCH acc c=" << c << " lane=" << i << " incr=" << x << " fresh=" << y; res = os.str(); break; }
            }
        if (res == "ok")
            for (int i = 0; i < 2 * NNEvaluator::n1; i++)
                if (nn.l1OutClipped(i) != f.l1OutClipped(i)) { os << "MISMATCH clipped i=" << i; res = os.str(); break; }
        if (res == "ok" && sc != sc2) { os << "MISMATCH score incr=" << sc << " fresh=" << sc2; res = os.str(); }
        f.connectPosition(nullptr);
    }
    if (!keep) std::memcpy((void*)&nn.stack, save.data(), sizeof(nn.stack));
    return res;
}

static int countNonKing(const Position& p) {
    return BitBoard::bitCount(p.occupiedBB() & ~p.pieceTypeBB(Piece::WKING, Piece::BKING));
}

static std::string reply(NNEvaluator& nn, bool keep = false) {
    std::string st = stateLine(nn);               // state right after the operation
    std::string pred = compareWithFresh(nn, gPos, keep);
    if (keep) st = stateLine(nn);                  // an explicit eval shows the flushed state
    return st + " " + pred;
}

static std::string nnHandle(const std::vector<std::string>& a) {
    if (a.empty()) return "bad-op";
    const std::string& op = a[0];
    size_t n = a.size();
    if (op == "mknet" && n == 3) {
        if (a[1] != "wide" && a[1] != "narrow") return "bad-op";
        return mkFormulaNet(a[1] == "wide", a[2]);
    }
    NNEvaluator& nn = theNN();
    if (op == "kind" && n == 2) {
        if (a[1] != "wide" && a[1] != "narrow") return "bad-op";
        bool wide = a[1] == "wide";
        const NetData& nd = nn.netData;
        bool ok = nd.weight1(0, 0) == wFormula(wide, 0) && nd.weight1(20479, 255) == wFormula(wide, 20479u * 256u + 255u) &&
                  nd.bias1(7) == wFormula(wide, 0x05000000u + 7u);
        return ok ? "ok " + a[1] : "bad-net";
    }
    if (op == "new" && n == 7) {
        PosSpec ps;
        if (!parseSpec(a, 1, ps)) return "bad-op";
        Position p; buildPos(ps, p);
        nn.connectPosition(nullptr);
        gPos = p;
        nn.connectPosition(&gPos);
        gUndo.clear();
        gActive = true;
        return reply(nn);
    }
    if (!gActive) return "bad-op";
    if (op == "mk" && n == 4) {
        long long f = vToInt(a[1]), t = vToInt(a[2]), pr = vToInt(a[3]);
        if (f < 0 || f > 63 || t < 0 || t > 63 || f == t) return "bad-op";
        if (!(pr == 0 || (pr >= 2 && pr <= 5) || (pr >= 8 && pr <= 11))) return "bad-op";
        int p = gPos.getPiece(Square((int)f)), cap = gPos.getPiece(Square((int)t));
        if (p == 0 || cap == Piece::WKING || cap == Piece::BKING) return "bad-op";
        if ((int)gUndo.size() >= maxUndo) return "bad-op";
        Move m;
        if (!findLegal(gPos, (int)f, (int)t, (int)pr, m)) return "illegal";      // outside the model's domain (generators never emit it)
        UndoEnt u; u.isNull = false; u.m = m;
        gPos.makeMove(m, u.ui);
        gUndo.push_back(u);
        return reply(nn);
    }
    if (op == "un" && n == 1) {
        if (gUndo.empty()) return "bad-op";
        UndoEnt u = gUndo.back(); gUndo.pop_back();
        if (u.isNull) {
            gPos.setWhiteMove(u.wtm); gPos.setEpSquare(u.ep); gPos.setHalfMoveClock(u.hmc);
        } else
            gPos.unMakeMove(u.m, u.ui);
        return reply(nn);
    }
    if (op == "null" && n == 1) {
        if ((int)gUndo.size() >= maxUndo) return "bad-op";
        UndoEnt u; u.isNull = true; u.wtm = gPos.isWhiteMove(); u.ep = gPos.getEpSquare(); u.hmc = gPos.getHalfMoveClock();
        gPos.setWhiteMove(!u.wtm); gPos.setEpSquare(Square(-1)); gPos.setHalfMoveClock(0);
        gUndo.push_back(u);
        return reply(nn);
    }
    if (op == "set" && n == 3) {
        long long s = vToInt(a[1]), p = vToInt(a[2]);
        if (s < 0 || s > 63 || p < 0 || p > 12 || p == Piece::WKING || p == Piece::BKING) return "bad-op";
        int old = gPos.getPiece(Square((int)s));
        if (old == Piece::WKING || old == Piece::BKING) return "bad-op";
        if (countNonKing(gPos) - (old != 0) + (p != 0) > 30) return "bad-op";
        // a direct setPiece between makeMove and its unMakeMove would not be undone by unMakeMove (ill-formed history)
        if (!gUndo.empty()) return "bad-op";
        gPos.setPiece(Square((int)s), (int)p);
        gPos.setEpSquare(Square(-1));                                   // keep the position usable for move generation
        gPos.setCastleMask(fixedCastleMask(gPos, gPos.getCastleMask()));
        return reply(nn);
    }
    if (op == "copy" && n == 1) {
        Position tmp(gPos);
        gPos = tmp;                      // Position::operator= -> forceFullEval()
        return reply(nn);
    }
    if (op == "reconnect" && n == 1) {
        nn.connectPosition(nullptr);
        nn.connectPosition(&gPos);
        return reply(nn);
    }
    if (op == "eval" && n == 1)
        return reply(nn, true);
    return "bad-op";
}
static VReg regNN("nn", nnHandle);

// ---- generator: picks legal moves itself and prints the concrete "nn" line it executed ------
static bool isSpecial(const Position& p, const Move& m) {
    int pc = p.getPiece(m.from());
    if (p.getPiece(m.to()) != 0 || m.promoteTo() != 0) return true;
    if (pc == Piece::WKING || pc == Piece::BKING) return true;
    if ((pc == Piece::WPAWN || pc == Piece::BPAWN) && m.to() == p.getEpSquare()) return true;
    return false;
}

static std::string run(const std::string& line) {
    std::vector<std::string> tok; std::istringstream is(line); std::string t;
    while (is >> t) tok.push_back(t);
    tok.erase(tok.begin());
    std::string r = nnHandle(tok);
    if (r == "bad-op" || r == "illegal") return "gen-error " + line;
    return line;
}

static std::string nngHandle(const std::vector<std::string>& a) {
    if (a.empty()) return "bad-op";
    const std::string& op = a[0];
    size_t n = a.size();
    if (op == "new" && n == 7) {
        PosSpec ps;
        bool ok = parseSpec(a, 1, ps);
        if (ok) {
            Position p; buildPos(ps, p);
            ok = saneForMoveGen(p);
        }
        if (!ok)
            return run("nn new RNBQKBNRPPPPPPPP................................pppppppprnbqkbnr w 15 -1 0 1");
        return run("nn " + vJoin(a));
    }
    if (!gActive) return "bad-op";
    if (op == "move" && n == 3) {
        U64 r = vToU64(a[1]); bool special = a[2] == "1";
        if ((int)gUndo.size() >= maxUndo) return run(gUndo.empty() ? "nn eval" : "nn un");
        MoveList ml;
        MoveGen::pseudoLegalMoves(gPos, ml);
        MoveGen::removeIllegal(gPos, ml);
        std::vector<Move> cand;
        if (special)
            for (int i = 0; i < ml.size; i++) if (isSpecial(gPos, ml[i])) cand.push_back(ml[i]);
        if (cand.empty())
            for (int i = 0; i < ml.size; i++) cand.push_back(ml[i]);
        if (cand.empty()) return run(gUndo.empty() ? "nn eval" : "nn un");
        const Move& m = cand[r % cand.size()];
        std::ostringstream os; os << "nn mk " << m.from().asInt() << ' ' << m.to().asInt() << ' ' << m.promoteTo();
        return run(os.str());
    }
    if (op == "un" && n == 1) return run(gUndo.empty() ? "nn eval" : "nn un");
    if (op == "null" && n == 1) {
        if (MoveGen::inCheck(gPos) || (int)gUndo.size() >= maxUndo) return run("nn eval");
        return run("nn null");
    }
    if (op == "set" && n == 2) {
        U64 r = vToU64(a[1]);
        if (!gUndo.empty()) return run("nn un");
        for (int tries = 0; tries < 20; tries++) {
            r = r * 6364136223846793005ULL + 1442695040888963407ULL;
            int sq = (int)((r >> 33) % 64);
            int pc = (int)((r >> 20) % 13);
            int old = gPos.getPiece(Square(sq));
            if (pc == Piece::WKING || pc == Piece::BKING || old == Piece::WKING || old == Piece::BKING || pc == old) continue;
            if ((pc == Piece::WPAWN || pc == Piece::BPAWN) && (sq < 8 || sq >= 56)) continue;
            if (countNonKing(gPos) - (old != 0) + (pc != 0) > 30) continue;
            Position q(gPos);
            q.setPiece(Square(sq), pc); q.setEpSquare(Square(-1)); q.setCastleMask(fixedCastleMask(q, q.getCastleMask()));
            if (MoveGen::canTakeKing(q)) continue;
            std::ostringstream os; os << "nn set " << sq << ' ' << pc;
            return run(os.str());
        }
        return run("nn eval");
    }
    if ((op == "copy" || op == "reconnect" || op == "eval") && n == 1) return run("nn " + op);
    return "bad-op";
}
static VReg regNNG("nng", nngHandle);

// ---------------------------------------------------------------------------------------------
// Evaluate-level session ("nne"): implementation-only property predicates
// ---------------------------------------------------------------------------------------------
static Position ePos;
static std::unique_ptr<Evaluate::EvalHashTables> eEt;
static std::unique_ptr<Evaluate> eEv;
static std::vector<UndoEnt> eUndo;
static int eContempt = 0;

static int freshEvalPos(const Position& pos, int contempt) {
    auto et = Evaluate::getEvalHashTables();
    Evaluate ev(*et);
    Position p2(pos);
    ev.connectPosition(p2);
    ev.setWhiteContempt(contempt);
    int s = ev.evalPos();
    et->nnEval->connectPosition(nullptr);
    return s;
}

static void flipSpec(const PosSpec& in, PosSpec& out) {
    for (int s = 0; s < 64; s++) {
        int p = in.sq[s ^ 56];
        out.sq[s] = p == 0 ? 0 : (p <= 6 ? p + 6 : p - 6);
    }
    out.wtm = !in.wtm;
    out.castle = ((in.castle & 3) << 2) | ((in.castle >> 2) & 3);
    out.ep = in.ep < 0 ? -1 : (in.ep ^ 56);
    out.hmc = in.hmc; out.fmc = in.fmc;
}
static void mirrorSpec(const PosSpec& in, PosSpec& out) {
    for (int s = 0; s < 64; s++) out.sq[s] = in.sq[s ^ 7];
    out.wtm = in.wtm; out.castle = 0;
    out.ep = in.ep < 0 ? -1 : (in.ep ^ 7);
    out.hmc = in.hmc; out.fmc = in.fmc;
}

#ifdef TEXEL_VERIF
static long hookEvals = 0, hookBad = 0;
static std::string hookFirst;
static void evalHook(const Position& pos, NNEvaluator& nn, int nnScore) {
    hookEvals++;
    Position p2(pos);
    NNEvaluator& f = freshNN();
    f.connectPosition(&p2);
    int sc2 = f.eval();
    bool bad = sc2 != nnScore;
    for (int c = 0; c < 2 && !bad; c++)
        for (int i = 0; i < NNEvaluator::n1; i++)
            if (nn.getLinState(c).l1Out(i) != f.getLinState(c).l1Out(i)) { bad = true; break; }
    f.connectPosition(nullptr);
    if (bad) {
        hookBad++;
        if (hookFirst.empty()) hookFirst = TextIO::toFEN(pos);
    }
}
#endif

static std::string searchHooked(const PosSpec& ps, int depth, int contempt) {
#ifdef TEXEL_VERIF
    Position pos; buildPos(ps, pos);
    if (!saneForMoveGen(pos)) return "skip";
    std::vector<U64> nullHist(SearchConst::MAX_SEARCH_DEPTH * 2);
    TranspositionTable tt(64 * 1024);
    Notifier notifier;
    ThreadCommunicator comm(nullptr, tt, notifier, false);
    KillerTable kt;
    History ht;
    auto et = Evaluate::getEvalHashTables();
    Search::SearchTables st(comm.getCTT(), kt, ht, *et);
    TreeLogger treeLog;
    MoveList moves;
    MoveGen::pseudoLegalMoves(pos, moves);
    MoveGen::removeIllegal(pos, moves);
    if (moves.size == 0) return "skip";
    Search sc(pos, nullHist, 0, st, comm, treeLog);
    sc.setWhiteContempt(contempt);
    sc.timeLimit(-1, -1);
    hookEvals = hookBad = 0; hookFirst.clear();
    theNN();                                   // make sure the scratch evaluator exists before the hook runs
    freshNN();
    Evaluate::verifEvalHook = evalHook;
    Move best = sc.iterativeDeepening(moves, depth, 40000, 1, false, 100);   // node limit keeps odd networks from exploding
    Evaluate::verifEvalHook = nullptr;
    std::ostringstream os;
    os << "evals=" << hookEvals << " bad=" << hookBad << " best=" << TextIO::moveToUCIString(best);
    if (hookBad) os << " first=" << hookFirst;
    std::string r = os.str();
    std::replace(r.begin(), r.end(), '\n', ' ');
    return r;
#else
    return "no-hook";
#endif
}

static std::string nneHandle(const std::vector<std::string>& a) {
    if (a.empty()) return "bad-op";
    const std::string& op = a[0];
    size_t n = a.size();
    if (op == "new" && n == 7) {
        PosSpec ps;
        if (!parseSpec(a, 1, ps)) return "bad-op";
        Position p; buildPos(ps, p);
        if (eEt) eEt->nnEval->connectPosition(nullptr);
        eEv.reset();
        eEt = Evaluate::getEvalHashTables();
        eEv.reset(new Evaluate(*eEt));
        ePos = p;
        eEv->connectPosition(ePos);
        eContempt = 0;
        eUndo.clear();
        return "ok";
    }
    if (op == "sym" && n == 8) {
        PosSpec ps;
        if (!parseSpec(a, 1, ps)) return "bad-op";
        int ct = (int)vToInt(a[7]);
        Position p; buildPos(ps, p);
        if (!saneForMoveGen(p)) return "skip";
        PosSpec fs; flipSpec(ps, fs);
        Position pf; buildPos(fs, pf);
        std::ostringstream os;
        os << freshEvalPos(p, ct) << ' ' << freshEvalPos(pf, -ct) << ' ';
        if (ps.castle == 0) {
            PosSpec ms; mirrorSpec(ps, ms);
            Position pm; buildPos(ms, pm);
            os << freshEvalPos(pm, ct);
        } else os << '-';
        return os.str();
    }
    if (op == "search" && n == 9) {
        PosSpec ps;
        if (!parseSpec(a, 1, ps)) return "bad-op";
        int depth = (int)vToInt(a[7]), ct = (int)vToInt(a[8]);
        if (depth < 1 || depth > 12) return "bad-op";
        return searchHooked(ps, depth, ct);
    }
    if (!eEv) return "bad-op";
    if (op == "mk" && n == 4) {
        long long f = vToInt(a[1]), t = vToInt(a[2]), pr = vToInt(a[3]);
        if (f < 0 || f > 63 || t < 0 || t > 63 || (int)eUndo.size() >= maxUndo) return "bad-op";
        Move m;
        if (!findLegal(ePos, (int)f, (int)t, (int)pr, m)) return "illegal";
        UndoEnt u; u.isNull = false; u.m = m;
        ePos.makeMove(m, u.ui);
        eUndo.push_back(u);
        return "ok";
    }
    if (op == "un" && n == 1) {
        if (eUndo.empty()) return "bad-op";
        UndoEnt u = eUndo.back(); eUndo.pop_back();
        if (u.isNull) { ePos.setWhiteMove(u.wtm); ePos.setEpSquare(u.ep); ePos.setHalfMoveClock(u.hmc); }
        else ePos.unMakeMove(u.m, u.ui);
        return "ok";
    }
    if (op == "null" && n == 1) {
        if ((int)eUndo.size() >= maxUndo) return "bad-op";
        UndoEnt u; u.isNull = true; u.wtm = ePos.isWhiteMove(); u.ep = ePos.getEpSquare(); u.hmc = ePos.getHalfMoveClock();
        ePos.setWhiteMove(!u.wtm); ePos.setEpSquare(Square(-1)); ePos.setHalfMoveClock(0);
        eUndo.push_back(u);
        return "ok";
    }
    if (op == "copy" && n == 1) { Position tmp(ePos); ePos = tmp; return "ok"; }
    if (op == "hmc" && n == 2) {
        long long h = vToInt(a[1]);
        if (h < 0 || h > 100) return "bad-op";
        ePos.setHalfMoveClock((int)h);
        return "ok";
    }
    if (op == "contempt" && n == 2) {
        long long c = vToInt(a[1]);
        if (c < -1000 || c > 1000) return "bad-op";
        eContempt = (int)c;
        eEv->setWhiteContempt(eContempt);
        return "ok";
    }
    if (op == "evalpos" && n == 1) {
        int s = eEv->evalPos();
        int f = freshEvalPos(ePos, eContempt);
        std::ostringstream os; os << s << ' ' << f;
        return os.str();
    }
    return "bad-op";
}
static VReg regNNE("nne", nneHandle);
