/* Verification aid (C10): LD_PRELOAD library that makes condition-variable waiters slow.
 * Before every pthread_cond_wait / pthread_cond_timedwait / pthread_cond_clockwait the calling thread sleeps
 * VERIF_SLOWWAIT_US microseconds while it still holds the mutex - between "predicate evaluated" and "thread blocked".
 * A condition variable releases the mutex and blocks atomically, so correct code cannot tell the difference; code that
 * changes a wait predicate without holding the mutex loses the wake-up almost every time instead of once in a million. */
#define _GNU_SOURCE
#include <dlfcn.h>
#include <pthread.h>
#include <stdlib.h>
#include <time.h>

static long pause_us = -2;

static void slow(void) {
    if (pause_us == -2) {
        const char* e = getenv("VERIF_SLOWWAIT_US");
        pause_us = e ? atol(e) : 0;
    }
    if (pause_us > 0) {
        struct timespec ts;
        ts.tv_sec = pause_us / 1000000;
        ts.tv_nsec = (pause_us % 1000000) * 1000;
        nanosleep(&ts, 0);
    }
}

static void* next_sym(const char* name, const char* ver) {
    void* p = ver ? dlvsym(RTLD_NEXT, name, ver) : 0;
    return p ? p : dlsym(RTLD_NEXT, name);
}

int pthread_cond_wait(pthread_cond_t* c, pthread_mutex_t* m) {
    static int (*real)(pthread_cond_t*, pthread_mutex_t*);
    if (!real) real = (int (*)(pthread_cond_t*, pthread_mutex_t*))next_sym("pthread_cond_wait", "GLIBC_2.3.2");
    slow();
    return real(c, m);
}

int pthread_cond_timedwait(pthread_cond_t* c, pthread_mutex_t* m, const struct timespec* t) {
    static int (*real)(pthread_cond_t*, pthread_mutex_t*, const struct timespec*);
    if (!real) real = (int (*)(pthread_cond_t*, pthread_mutex_t*, const struct timespec*))next_sym("pthread_cond_timedwait", "GLIBC_2.3.2");
    slow();
    return real(c, m, t);
}

int pthread_cond_clockwait(pthread_cond_t* c, pthread_mutex_t* m, clockid_t k, const struct timespec* t) {
    static int (*real)(pthread_cond_t*, pthread_mutex_t*, clockid_t, const struct timespec*);
    if (!real) real = (int (*)(pthread_cond_t*, pthread_mutex_t*, clockid_t, const struct timespec*))next_sym("pthread_cond_clockwait", 0);
    slow();
    return real(c, m, k, t);
}
