// C13 / C04: exact distance to mate of <=4-man pawnless positions from the engine's own generator (VectorStorage back
// end).  The tables are certified exhaustively by the C12 check with the proven Lean checker; here they serve as oracle.
#include <map>
#include <memory>
#include <string>
#include <vector>
#include "position.hpp"
#include "textio.hpp"
#include "tbgen.hpp"
#include "bitBoard.hpp"
#include "util.hpp"
#include "harness.hpp"

std::string vFenOf(const std::vector<std::string>& a, size_t from, size_t to);
std::string vFenErrClass(const std::string& msg);

namespace {
struct Tb {
    VectorStorage storage;
    std::unique_ptr<TBGenerator<VectorStorage>> gen;
};
std::map<std::string, std::unique_ptr<Tb>> cache;

std::string handle(const std::vector<std::string>& a) {
    if (a.size() < 2 || a[0] != "of") return "bad-op";
    try {
        Position pos = TextIO::readFEN(vFenOf(a, 1, a.size()));
        if (BitBoard::bitCount(pos.occupiedBB()) > 4 || pos.pieceTypeBB(Piece::WPAWN, Piece::BPAWN) || pos.getCastleMask())
            return "none";
        PieceCount pc;
        pc.nwq = BitBoard::bitCount(pos.pieceTypeBB(Piece::WQUEEN)); pc.nwr = BitBoard::bitCount(pos.pieceTypeBB(Piece::WROOK));
        pc.nwb = BitBoard::bitCount(pos.pieceTypeBB(Piece::WBISHOP)); pc.nwn = BitBoard::bitCount(pos.pieceTypeBB(Piece::WKNIGHT));
        pc.nbq = BitBoard::bitCount(pos.pieceTypeBB(Piece::BQUEEN)); pc.nbr = BitBoard::bitCount(pos.pieceTypeBB(Piece::BROOK));
        pc.nbb = BitBoard::bitCount(pos.pieceTypeBB(Piece::BBISHOP)); pc.nbn = BitBoard::bitCount(pos.pieceTypeBB(Piece::BKNIGHT));
        std::string key = std::to_string(pc.nwq) + std::to_string(pc.nwr) + std::to_string(pc.nwb) + std::to_string(pc.nwn) + "/" +
                          std::to_string(pc.nbq) + std::to_string(pc.nbr) + std::to_string(pc.nbb) + std::to_string(pc.nbn);
        auto it = cache.find(key);
        if (it == cache.end()) {
            std::unique_ptr<Tb> tb(new Tb);
            tb->gen.reset(new TBGenerator<VectorStorage>(tb->storage, pc));
            RelaxedShared<S64> maxT(-1);
            if (!tb->gen->generate(maxT, false)) return "gen-failed";
            it = cache.emplace(key, std::move(tb)).first;
        }
        int score = 0;
        if (!it->second->gen->probeDTM(pos, 0, score)) return "none";
        const int MATE0 = 32000;
        if (score == 0) return "draw";
        if (score > 0) return "win " + std::to_string((MATE0 - score) / 2);
        return "loss " + std::to_string((MATE0 + score - 1) / 2);
    } catch (const ChessParseError& e) {
        return "err " + vFenErrClass(e.what());
    }
}
VReg reg("dtm", handle);
}
