#include "harness.hpp"
#include <iostream>
#include <map>
#include <stdexcept>
#include <algorithm>
#include "bitBoard.hpp"
#include "chessError.hpp"
#include "computerPlayer.hpp"

static std::map<std::string, VHandler>& registry() {
    static std::map<std::string, VHandler> r;
    return r;
}
VReg::VReg(const char* name, VHandler h) { registry()[name] = h; }

long long vToInt(const std::string& s) {
    size_t pos = 0;
    long long v = std::stoll(s, &pos, 10);
    if (pos != s.size()) throw std::invalid_argument("int");
    return v;
}
unsigned long long vToU64(const std::string& s) {
    size_t pos = 0;
    unsigned long long v;
    if (s.size() > 2 && s[0] == '0' && s[1] == 'x') v = std::stoull(s.substr(2), &pos, 16), pos += 2;
    else v = std::stoull(s, &pos, 10);
    if (pos != s.size()) throw std::invalid_argument("u64");
    return v;
}
std::string vHex(unsigned long long v) {
    std::ostringstream os; os << "0x" << std::hex << v; return os.str();
}
std::string vJoin(const std::vector<std::string>& v, const char* sep) {
    std::string r;
    for (size_t i = 0; i < v.size(); i++) { if (i) r += sep; r += v[i]; }
    return r;
}

int main(int argc, char** argv) {
    ComputerPlayer::initEngine();
    std::ios::sync_with_stdio(false);
    std::string line;
    while (std::getline(std::cin, line)) {
        std::vector<std::string> tok;
        std::istringstream is(line);
        std::string t;
        while (is >> t) tok.push_back(t);
        if (tok.empty()) { std::cout << "bad-op\n"; continue; }
        auto it = registry().find(tok[0]);
        if (it == registry().end()) { std::cout << "bad-op\n"; continue; }
        std::vector<std::string> args(tok.begin() + 1, tok.end());
        std::string out;
        try {
            out = it->second(args);
        } catch (const ChessError& e) {
            out = std::string("chess-error");
        } catch (const std::invalid_argument&) {
            out = "bad-op";
        } catch (const std::out_of_range&) {
            out = "bad-op";
        }
        std::cout << out << '\n';
    }
    std::cout.flush();
    return 0;
}
