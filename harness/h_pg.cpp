// C16: proof-game tool (ProofGame / ProofKernel) through the line protocol.
//  pg counts c1..c12            ProofGame::validatePieceCounts on a position with these piece counts -> ok|white|black
//  pg enough c1..c12 g1..g12    ProofGame::enoughRemainingPieces(c) with goalPieceCnt = g           -> 0|1
//  pg plies nm0 nm1 <fenA> <fenB>  distLowerBound(A -> B) with computeNeededMoves' result overridden through the
//                               TEXEL_VERIF hook: exercises the capture/ply combination at the end     -> int|inf
//  pg gengame seed plies minMen style   (style bit 3: pawn-capture seeking) random legal game from the initial position (input generator)  -> moves | fen
//  pg bound <fenA> | <fenB>     bounds / verdicts of the API for the pair (monitor, implementation only)
//  pg deadlock blocked <fenP> <fenG>  ProofGame::computeDeadlockedPieces(P, G, blocked)                -> blocked-after ret
#include <memory>
#include <vector>
#include <string>
#include <sstream>
#include <algorithm>
#include <climits>
#include <map>
#define private public
#define protected public
#include "position.hpp"
#include "moveGen.hpp"
#include "textio.hpp"
#include "proofgame.hpp"
#include "proofkernel.hpp"
#undef private
#undef protected
#include "random.hpp"
#include "harness.hpp"

std::string vFenOf(const std::vector<std::string>& a, size_t from, size_t to);

namespace {

struct NullBuf : std::streambuf { int overflow(int c) override { return c; } };
NullBuf nullBuf;
std::ostream nullLog(&nullBuf);

const std::string& startFen() { return TextIO::startPosFEN; }

Position posWithCounts(const std::vector<long long>& c, size_t off) {
    Position pos;
    for (int s = 0; s < 64; s++) pos.setPiece(Square(s), Piece::EMPTY);
    // kings first on fixed squares so that any later consumer sees a king of each colour when the counts say so;
    // the remaining pieces fill squares 8.. upwards, then 0..7 (validatePieceCounts only counts)
    int sq = 0;
    for (int p = Piece::WKING; p <= Piece::BPAWN; p++) {
        for (long long i = 0; i < c[off + p - 1]; i++) {
            if (sq >= 64) throw std::invalid_argument("too many");
            pos.setPiece(Square(sq++), p);
        }
    }
    return pos;
}

std::string opCounts(const std::vector<std::string>& a) {
    if (a.size() != 13) return "bad-op";
    std::vector<long long> c;
    long long sum = 0;
    for (size_t i = 1; i < a.size(); i++) { c.push_back(vToInt(a[i])); if (c.back() < 0) return "bad-op"; sum += c.back(); }
    if (sum > 64) return "bad-op";
    Position pos = posWithCounts(c, 0);
    try {
        ProofGame::validatePieceCounts(pos);
    } catch (const ChessParseError& e) {
        std::string m = e.what();
        if (m == "Too many white pieces") return "white";
        if (m == "Too many black pieces") return "black";
        return "other:" + m;
    }
    return "ok";
}

ProofGame& kernelPG() {
    static ProofGame pg(startFen(), startFen(), false, {}, false, nullLog);
    return pg;
}

std::string opEnough(const std::vector<std::string>& a) {
    if (a.size() != 25) return "bad-op";
    int cur[Piece::nPieceTypes] = {0};
    ProofGame& pg = kernelPG();
    int saved[Piece::nPieceTypes];
    for (int p = 0; p < Piece::nPieceTypes; p++) saved[p] = pg.goalPieceCnt[p];
    for (int p = 1; p <= 12; p++) {
        long long c = vToInt(a[p]), g = vToInt(a[12 + p]);
        if (c < -1000000 || c > 1000000 || g < -1000000 || g > 1000000) return "bad-op";
        cur[p] = (int)c;
        pg.goalPieceCnt[p] = (int)g;
    }
    bool r = pg.enoughRemainingPieces(cur);
    for (int p = 0; p < Piece::nPieceTypes; p++) pg.goalPieceCnt[p] = saved[p];
    return r ? "1" : "0";
}

// --- ply combination through the hook -------------------------------------------------------
int injected[2];
bool hookCalled;
void injectHook(int neededMoves[2]) { neededMoves[0] = injected[0]; neededMoves[1] = injected[1]; hookCalled = true; }

int observed[2];
void observeHook(int neededMoves[2]) { observed[0] = neededMoves[0]; observed[1] = neededMoves[1]; }

struct PairCache {
    std::string key;
    std::unique_ptr<ProofGame> pg;
    Position posA;
};
PairCache pairCache;

std::string opPlies(const std::vector<std::string>& a) {
    if (a.size() != 15) return "bad-op";
    long long n0 = vToInt(a[1]), n1 = vToInt(a[2]);
    if (n0 < -500000000 || n0 > 500000000 || n1 < -500000000 || n1 > 500000000) return "bad-op";
    std::string fa = vFenOf(a, 3, 9), fb = vFenOf(a, 9, 15);
    std::string key = fa + "|" + fb;
    if (pairCache.key != key) {
        pairCache.pg.reset();
        pairCache.key.clear();
        pairCache.posA = TextIO::readFEN(fa);
        pairCache.pg.reset(new ProofGame(fa, fb, false, {}, false, nullLog));
        pairCache.key = key;
    }
    injected[0] = (int)n0; injected[1] = (int)n1; hookCalled = false;
    ProofGame::verifNeededMovesHook = injectHook;
    int r = pairCache.pg->distLowerBound(pairCache.posA);
    ProofGame::verifNeededMovesHook = nullptr;
    if (!hookCalled) return r == INT_MAX ? "inf" : "nohook";
    return std::to_string(r);
}

// --- random legal games ----------------------------------------------------------------------
std::string opGenGame(const std::vector<std::string>& a) {
    if (a.size() != 5) return "bad-op";
    U64 seed = vToU64(a[1]); int plies = (int)vToU64(a[2]); int minMen = (int)vToU64(a[3]); int style = (int)vToU64(a[4]);
    Position pos = TextIO::readFEN(startFen());
    Random rnd(seed);
    std::vector<std::string> out;
    for (int i = 0; i < plies; i++) {
        MoveList ml; MoveGen::pseudoLegalMoves(pos, ml); MoveGen::removeIllegal(pos, ml);
        int men = BitBoard::bitCount(pos.occupiedBB());
        std::vector<int> idx; std::vector<int> wt;
        bool wtm = pos.isWhiteMove();
        for (int k = 0; k < ml.size; k++) {
            const Move& m = ml[k];
            int pc = pos.getPiece(m.from());
            bool pawn = pc == Piece::WPAWN || pc == Piece::BPAWN;
            bool ep = pawn && m.to() == pos.getEpSquare() && pos.getEpSquare().isValid();
            bool capture = pos.getPiece(m.to()) != Piece::EMPTY || ep;
            if (capture && men <= minMen) continue;
            int w = 10;
            if (style & 1) {            // promotion seeking
                if (m.promoteTo() != Piece::EMPTY) w = 400;
                else if (pawn) {
                    int adv = wtm ? m.to().getY() : 7 - m.to().getY();   // 2..6
                    w = 10 + adv * adv * 3;
                    if (capture) w += 60;
                } else if (capture && men <= minMen + 3) w = 2;           // keep the capture budget for pawns
            }
            if (style & 2) {            // castling / en-passant seeking
                bool king = pc == Piece::WKING || pc == Piece::BKING;
                int dx = m.to().getX() - m.from().getX();
                if (king && (dx == 2 || dx == -2)) w = std::max(w, 600);
                else if (king || pc == Piece::WROOK || pc == Piece::BROOK) {
                    if (pos.getCastleMask() != 0 && i < 40) w = std::min(w, 3);   // keep the rights for a while
                }
                if (ep) w = std::max(w, 300);
                if (pawn && std::abs(m.to().getY() - m.from().getY()) == 2) {
                    int x = m.to().getX(), y = m.to().getY();
                    int enemy = wtm ? Piece::BPAWN : Piece::WPAWN;
                    if ((x > 0 && pos.getPiece(Square(x - 1, y)) == enemy) || (x < 7 && pos.getPiece(Square(x + 1, y)) == enemy))
                        w = std::max(w, 120);
                }
                if ((pc == Piece::WKNIGHT || pc == Piece::BKNIGHT || pc == Piece::WBISHOP || pc == Piece::BBISHOP) &&
                    m.from().getY() == (wtm ? 0 : 7)) w = std::max(w, 40);   // clear the back rank
            }
            if (style & 8) {            // pawn-structure seeking: pawn captures, and men stepping onto squares attacked by enemy pawns
                if (pawn && capture) w = std::max(w, 500);
                else {
                    U64 epAtk = wtm ? BitBoard::bPawnAttacksMask(pos.pieceTypeBB(Piece::BPAWN)) : BitBoard::wPawnAttacksMask(pos.pieceTypeBB(Piece::WPAWN));
                    if (epAtk & (1ULL << m.to().asInt())) w = std::max(w, pawn ? 200 : 120);
                }
            }
            if (style & 48) {           // one-sided pawn relays: side F (bit 4: white, bit 5: black) captures with pawns and keeps all its pawns
                bool fWhite = (style & 16) != 0;
                if (wtm == fWhite) {
                    if (pawn && capture) w = 600;
                    else if (pawn) w = (m.promoteTo() != Piece::EMPTY) ? 1 : 30;
                    else w = 10;
                } else {
                    U64 fAtk = fWhite ? BitBoard::wPawnAttacksMask(pos.pieceTypeBB(Piece::WPAWN)) : BitBoard::bPawnAttacksMask(pos.pieceTypeBB(Piece::BPAWN));
                    int victim = pos.getPiece(m.to());
                    if (victim == (fWhite ? Piece::WPAWN : Piece::BPAWN) || ep) w = 1;
                    else if (fAtk & (1ULL << m.to().asInt())) w = 300;
                    else w = 10;
                }
            }
            if (style & 128) {          // capture-free king walks among advancing pawns
                bool king = pc == Piece::WKING || pc == Piece::BKING;
                if (capture) w = 1;
                else if (king) w = (i >= 2) ? 250 : 20;
                else if (pawn) w = 120;
                else w = 5;
            }
            idx.push_back(k); wt.push_back(w);
        }
        if (idx.empty()) break;
        long long tot = 0; for (int w : wt) tot += w;
        long long r = (long long)(rnd.nextU64() % (U64)tot);
        size_t j = 0;
        while (r >= wt[j]) { r -= wt[j]; j++; }
        const Move& m = ml[idx[j]];
        out.push_back(TextIO::moveToUCIString(m));
        const bool playedEp = (pos.getPiece(m.from()) == Piece::WPAWN || pos.getPiece(m.from()) == Piece::BPAWN) &&
                              pos.getEpSquare().isValid() && m.to() == pos.getEpSquare();
        UndoInfo ui; pos.makeMove(m, ui);
        if ((style & 64) && playedEp) {                        // end the game with the en-passant capture
            TextIO::fixupEPSquare(pos);
            break;
        }
        TextIO::fixupEPSquare(pos);
        if ((style & 4) && pos.getEpSquare().isValid() && 3 * i >= plies)   // end the game in a position with an e.p. right
            break;
    }
    return "ok " + vJoin(out) + " | " + TextIO::toFEN(pos);
}

// --- API monitor for a (position, later position) pair ------------------------------------------
std::string errTok(const std::exception& e) {
    std::string m = e.what();
    for (char& c : m) if (c == ' ') c = '_';
    return "err:" + m;
}

std::string boundStr(int b) { return b == INT_MAX ? std::string("inf") : std::to_string(b); }

std::string opBound(const std::vector<std::string>& a) {
    // pg bound <mode> <fenA 6> <fenB 6>     mode bit 0: also run the proof-kernel search
    if (a.size() != 14) return "bad-op";
    int mode = (int)vToU64(a[1]);
    std::string fa = vFenOf(a, 2, 8), fb = vFenOf(a, 8, 14);
    Position posA = TextIO::readFEN(fa);
    std::ostringstream os;
    // (1) static rules + distance heuristic, no last-move analysis (as ProofGameFilter::computeExtProofKernel, step 1)
    try {
        ProofGame pg(fa, fb, false, {}, false, nullLog);
        observed[0] = observed[1] = -1;
        ProofGame::verifNeededMovesHook = observeHook;
        int b0 = pg.distLowerBound(posA);
        ProofGame::verifNeededMovesHook = nullptr;
        os << "b0=" << boundStr(b0) << " nm=" << observed[0] << "," << observed[1];
        auto opts = ProofGame::Options().setSmallCache(true).setMaxNodes(2);
        ProofGame::Result res;
        os << " s0=" << boundStr(pg.search(opts, res));
    } catch (const ChessError& e) {
        ProofGame::verifNeededMovesHook = nullptr;
        os << "b0=" << errTok(e) << " nm=-,- s0=-";
    }
    // (2) forced last moves only: bound to the retracted goal + number of retracted moves is still a lower bound
    try {
        ProofGame pg(fa, fb, true, {}, false, nullLog);
        int b = pg.distLowerBound(posA);
        os << " b1=" << (b == INT_MAX ? std::string("inf") : std::to_string(b + (int)pg.lastMoves.size())) << " last1=" << pg.lastMoves.size();
    } catch (const ChessError& e) {
        os << " b1=" << errTok(e) << " last1=-";
    }
    // (3) as the filter's step 2 (assumed irreversible last moves allowed) + the proof kernel search
    try {
        ProofGame pg(fa, fb, true, {}, true, nullLog);
        auto opts = ProofGame::Options().setSmallCache(true).setMaxNodes(2);
        ProofGame::Result res;
        int s = pg.search(opts, res);
        os << " s2=" << boundStr(s) << " last2=" << pg.lastMoves.size();
        if ((mode & 1) && s == -1) {
            U64 blocked;
            if (!pg.computeBlocked(posA, blocked)) blocked = 0xffffffffffffffffULL;
            ProofKernel pk(posA, pg.getGoalPos(), blocked, nullLog);
            std::vector<ProofKernel::PkMove> kernel;
            std::vector<ProofKernel::ExtPkMove> ext;
            try {
                auto r = pk.findProofKernel(kernel, ext);
                os << " pk=" << (int)r << " nk=" << kernel.size() << " nx=" << ext.size();
            } catch (const NotImplementedError& e) {
                os << " pk=notimpl";
            }
        } else {
            os << " pk=-";
        }
    } catch (const NotImplementedError& e) {
        os << " s2=notimpl last2=- pk=-";
    } catch (const ChessError& e) {
        os << " s2=" << errTok(e) << " last2=- pk=-";
    }
    return os.str();
}

std::string opBlocked(const std::vector<std::string>& a) {
    // pg blocked <fenP> <fenG>: the blocked mask ProofGame::computeBlocked establishes BEFORE the deadlocked-piece rule
    // (findInfeasible = true skips computeDeadlockedPieces) -> mask | infeasible      (input generator for `pg deadlock`)
    if (a.size() != 13) return "bad-op";
    Position pos = TextIO::readFEN(vFenOf(a, 1, 7));
    Position goal = TextIO::readFEN(vFenOf(a, 7, 13));
    U64 blocked = 0;
    if (!ProofGame::computeBlocked(pos, goal, blocked, true)) return "infeasible";
    return std::to_string(blocked);
}

std::string opDeadlock(const std::vector<std::string>& a) {
    if (a.size() != 14) return "bad-op";
    U64 blocked = vToU64(a[1]);
    Position pos = TextIO::readFEN(vFenOf(a, 2, 8));
    Position goal = TextIO::readFEN(vFenOf(a, 8, 14));
    if (blocked & ~pos.occupiedBB()) return "bad-op";          // the model's hypothesis: blocked squares are occupied
    bool ret = ProofGame::computeDeadlockedPieces(pos, goal, blocked);
    return std::to_string(blocked) + (ret ? " 1" : " 0");
}

std::string handle(const std::vector<std::string>& a) {
    if (a.empty()) return "bad-op";
    const std::string& op = a[0];
    try {
        if (op == "counts") return opCounts(a);
        if (op == "enough") return opEnough(a);
        if (op == "plies") return opPlies(a);
        if (op == "gengame") return opGenGame(a);
        if (op == "bound") return opBound(a);
        if (op == "deadlock") return opDeadlock(a);
        if (op == "blocked") return opBlocked(a);
    } catch (const ChessParseError& e) {
        return std::string("err ") + e.what();
    }
    return "bad-op";
}
VReg reg("pg", handle);

}
