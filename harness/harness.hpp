// Line-protocol harness: one operation per input line, one canonical reply line.
#pragma once
#include <string>
#include <vector>
#include <sstream>
typedef std::string (*VHandler)(const std::vector<std::string>& args);
struct VReg { VReg(const char* name, VHandler h); };
// helpers
long long vToInt(const std::string& s);          // throws std::invalid_argument
unsigned long long vToU64(const std::string& s); // decimal or 0x..
std::string vHex(unsigned long long v);
std::string vJoin(const std::vector<std::string>& v, const char* sep = " ");
